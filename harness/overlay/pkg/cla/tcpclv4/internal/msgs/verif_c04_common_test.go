package msgs

// GENERATED from /verif/harness/c04_common.go.tmpl by harness/gen_c04_common.sh — edit the template.
//
// Shared plumbing of the C04 harnesses (one copy per package because overlay files are in-package):
//   * a child-process case server: the test binary re-executes itself (VERIF_C04_CHILD=1) under an
//     address-space limit and a Go memory limit; the child reads "<decoder> <hex>" lines, runs the REAL
//     decoder with recover() and a TotalAlloc delta, and answers "<outcome> <alloc> <canon>";
//   * the parent dispatches the cases over up to 16 children; a child that dies (fatal out of memory,
//     panic in a goroutine) or does not answer within 5 s yields the outcome oom / panic / timeout for
//     the case it was working on and is replaced;
//   * structure-aware generators: boundary values at every CBOR head / binary length field,
//     truncation at every offset, seeded random mutations.
//
// Observation line (see /verif/lean/Driver/C04.lean):
//   dec <decoder> <inputhex> <outcome> <allocated bytes> <canon>
//   outcome ∈ value | error | panic | timeout | oom ; canon = decoder specific summary or "-"

import (
	"bufio"
	"encoding/hex"
	"encoding/json"
	"fmt"
	"io"
	"os"
	"os/exec"
	"runtime"
	"runtime/debug"
	"sort"
	"strconv"
	"strings"
	"sync"
	"syscall"
	"testing"
	"time"
)

type verifC04Rng struct{ s uint64 }

func (r *verifC04Rng) next() uint64 {
	r.s += 0x9e3779b97f4a7c15
	z := r.s
	z = (z ^ (z >> 30)) * 0xbf58476d1ce4e5b9
	z = (z ^ (z >> 27)) * 0x94d049bb133111eb
	return z ^ (z >> 31)
}
func (r *verifC04Rng) intn(n int) int {
	if n <= 0 {
		return 0
	}
	return int(r.next() % uint64(n))
}

func verifC04Hex(b []byte) string {
	if len(b) == 0 {
		return "-"
	}
	return hex.EncodeToString(b)
}

func verifC04Unhex(s string) []byte {
	if s == "-" || s == "" {
		return nil
	}
	b, _ := hex.DecodeString(s)
	return b
}

// The boundary values of the property statement.
var verifC04Boundary = []uint64{0, 1, 23, 24, 1 << 16, 1<<31 - 1, 1 << 31, 1<<32 - 1, 1 << 62, 1 << 63, 1<<64 - 1}

// A decoder under test: returns "value" or "error" and a canonical summary ("-" if none).
type verifC04Dec func(in []byte) (outcome string, canon string)

type verifC04Case struct {
	dec string
	in  []byte
}

type verifC04Result struct {
	outcome string
	alloc   uint64
	canon   string
}

func verifC04Sanitize(s string) string {
	s = strings.Map(func(r rune) rune {
		if r <= ' ' || r > '~' {
			return '_'
		}
		return r
	}, s)
	if len(s) > 80 {
		s = s[:80]
	}
	if s == "" {
		s = "-"
	}
	return s
}

// verifC04RunOne runs one decoder in this process.
func verifC04RunOne(d verifC04Dec, in []byte) (res verifC04Result) {
	var m0, m1 runtime.MemStats
	runtime.ReadMemStats(&m0)
	func() {
		defer func() {
			if r := recover(); r != nil {
				res.outcome = "panic"
				res.canon = verifC04Sanitize(fmt.Sprint(r))
			}
		}()
		res.outcome, res.canon = d(in)
	}()
	runtime.ReadMemStats(&m1)
	res.alloc = m1.TotalAlloc - m0.TotalAlloc
	if res.canon == "" {
		res.canon = "-"
	}
	return
}

const verifC04DataLimit = 3 << 30 // RLIMIT_DATA of a child (RLIMIT_AS slows the Go runtime down considerably)
const verifC04CaseTimeout = 5 * time.Second

// verifC04Budget is the time a decoder that waits for goroutines (TCPCL send, MTCP handler) grants them.
// A case that ran out of time is repeated alone in a fresh child with four times the budget, so that a
// loaded machine does not look like a hang.
func verifC04Budget() time.Duration {
	if os.Getenv("VERIF_C04_SLOW") != "" {
		return 14 * time.Second
	}
	return 3500 * time.Millisecond
}

// verifC04Child is the case server (runs inside the re-executed test binary).
func verifC04Child(decs map[string]verifC04Dec) {
	_ = syscall.Setrlimit(syscall.RLIMIT_DATA, &syscall.Rlimit{Cur: verifC04DataLimit, Max: verifC04DataLimit})
	debug.SetMemoryLimit(1 << 30)
	in := bufio.NewReaderSize(os.Stdin, 1<<20)
	out := bufio.NewWriter(os.Stdout)
	for {
		line, err := in.ReadString('\n')
		if line = strings.TrimSpace(line); line != "" {
			f := strings.Fields(line)
			res := verifC04Result{outcome: "error", canon: "unknown-decoder"}
			if d, ok := decs[f[0]]; ok && len(f) == 2 {
				res = verifC04RunOne(d, verifC04Unhex(f[1]))
			}
			fmt.Fprintf(out, "%s %d %s\n", res.outcome, res.alloc, res.canon)
			_ = out.Flush()
		}
		if err != nil {
			return
		}
	}
}

type verifC04Worker struct {
	cmd    *exec.Cmd
	stdin  io.WriteCloser
	stdout *bufio.Reader
	stderr *verifC04Tail
}

// verifC04Tail keeps the last bytes written to it (the crash report of a child).
type verifC04Tail struct {
	mu  sync.Mutex
	buf []byte
}

func (t *verifC04Tail) Write(p []byte) (int, error) {
	t.mu.Lock()
	t.buf = append(t.buf, p...)
	if len(t.buf) > 1<<16 {
		t.buf = t.buf[:1<<15] // the head of a Go crash report names the reason
	}
	t.mu.Unlock()
	return len(p), nil
}
func (t *verifC04Tail) String() string {
	t.mu.Lock()
	defer t.mu.Unlock()
	return string(t.buf)
}

func verifC04Spawn(testName string, slow bool) (*verifC04Worker, error) {
	cmd := exec.Command(os.Args[0], "-test.run", "^"+testName+"$", "-test.timeout", "0")
	cmd.Env = append(os.Environ(), "VERIF_C04_CHILD=1", "GOMEMLIMIT=1GiB", "GOTRACEBACK=single", "GOMAXPROCS=1")
	if slow {
		cmd.Env = append(cmd.Env, "VERIF_C04_SLOW=1")
	}
	stdin, err := cmd.StdinPipe()
	if err != nil {
		return nil, err
	}
	stdout, err := cmd.StdoutPipe()
	if err != nil {
		return nil, err
	}
	tail := &verifC04Tail{}
	cmd.Stderr = tail
	if err := cmd.Start(); err != nil {
		return nil, err
	}
	w := &verifC04Worker{cmd: cmd, stdin: stdin, stdout: bufio.NewReaderSize(stdout, 1<<16), stderr: tail}
	// start-up (process creation, package initialisation) is not part of any case's time budget
	if _, ok := w.askT(verifC04Case{"ping", nil}, 60*time.Second); !ok {
		return nil, fmt.Errorf("child does not answer: %s", tail.String())
	}
	return w, nil
}

func (w *verifC04Worker) kill() {
	_ = w.stdin.Close()
	_ = w.cmd.Process.Kill()
	_, _ = w.cmd.Process.Wait()
}

// ask sends one case; ok=false means the child is gone (res then describes how it died).
func (w *verifC04Worker) ask(c verifC04Case) (res verifC04Result, ok bool) {
	return w.askT(c, verifC04CaseTimeout)
}

func (w *verifC04Worker) askT(c verifC04Case, timeout time.Duration) (res verifC04Result, ok bool) {
	if _, err := fmt.Fprintf(w.stdin, "%s %s\n", c.dec, verifC04Hex(c.in)); err != nil {
		return w.died(), false
	}
	type ans struct {
		line string
		err  error
	}
	ch := make(chan ans, 1)
	go func() {
		l, e := w.stdout.ReadString('\n')
		ch <- ans{l, e}
	}()
	select {
	case a := <-ch:
		f := strings.Fields(a.line)
		if a.err != nil || len(f) < 3 {
			return w.died(), false
		}
		n, _ := strconv.ParseUint(f[1], 10, 64)
		return verifC04Result{f[0], n, f[2]}, true
	case <-time.After(timeout):
		w.kill()
		return verifC04Result{"timeout", 0, "-"}, false
	}
}

func (w *verifC04Worker) died() verifC04Result {
	w.kill()
	time.Sleep(10 * time.Millisecond)
	s := w.stderr.String()
	switch {
	case strings.Contains(s, "out of memory") || strings.Contains(s, "cannot allocate"):
		return verifC04Result{"oom", 0, "fatal-out-of-memory"}
	case strings.Contains(s, "panic:") || strings.Contains(s, "fatal error:"):
		msg := s
		if i := strings.Index(s, "panic:"); i >= 0 {
			msg = s[i:]
		} else if i := strings.Index(s, "fatal error:"); i >= 0 {
			msg = s[i:]
		}
		if j := strings.IndexByte(msg, '\n'); j >= 0 {
			msg = msg[:j]
		}
		return verifC04Result{"panic", 0, verifC04Sanitize(msg)}
	}
	return verifC04Result{"panic", 0, verifC04Sanitize("child-died:" + s)}
}

// verifC04Main is the body of TestVerifC04 in every package.
//   decs   the decoders of this package
//   gen    the case generator (seeded, tier aware)
func verifC04Main(t *testing.T, testName string, decs map[string]verifC04Dec, gen func(r *verifC04Rng, thorough bool) []verifC04Case) {
	if os.Getenv("VERIF_C04_CHILD") != "" {
		verifC04Child(decs)
		return
	}
	outPath := os.Getenv("VERIF_OUT")
	if outPath == "" {
		t.Skip("VERIF_OUT not set")
	}
	seed, _ := strconv.ParseUint(os.Getenv("VERIF_SEED"), 10, 64)
	thorough := os.Getenv("VERIF_TIER") == "thorough"
	var cases []verifC04Case
	if rp := os.Getenv("VERIF_REPLAY"); rp != "" {
		var rep struct {
			MinimalInput string `json:"minimal_input"`
		}
		if b, err := os.ReadFile(rp); err == nil && json.Unmarshal(b, &rep) == nil {
			f := strings.Fields(rep.MinimalInput)
			if len(f) >= 3 && f[0] == "dec" {
				if _, mine := decs[f[1]]; mine {
					cases = append(cases, verifC04Case{f[1], verifC04Unhex(f[2])})
				}
			}
		}
	} else {
		cases = gen(&verifC04Rng{s: seed*0x1000193 + 0xc04}, thorough)
	}
	// de-duplicate
	seen := map[string]bool{}
	uniq := cases[:0]
	for _, c := range cases {
		k := c.dec + " " + string(c.in)
		if !seen[k] {
			seen[k] = true
			uniq = append(uniq, c)
		}
	}
	cases = uniq

	results := make([]verifC04Result, len(cases))
	nWorkers := runtime.NumCPU()
	if nWorkers > 16 {
		nWorkers = 16
	}
	if nWorkers > len(cases) {
		nWorkers = len(cases)
	}
	idx := make(chan int, len(cases))
	for i := range cases {
		idx <- i
	}
	close(idx)
	var wg sync.WaitGroup
	var spawnErr error
	var mu sync.Mutex
	respawns := 0
	for w := 0; w < nWorkers; w++ {
		wg.Add(1)
		go func() {
			defer wg.Done()
			var wk *verifC04Worker
			defer func() {
				if wk != nil {
					wk.kill()
				}
			}()
			for i := range idx {
				if wk == nil {
					var err error
					if wk, err = verifC04Spawn(testName, false); err != nil {
						mu.Lock()
						spawnErr = err
						mu.Unlock()
						return
					}
				}
				res, ok := wk.ask(cases[i])
				if res.outcome == "timeout" || strings.Contains(res.canon, "send=timeout") {
					// out of time, as seen by the parent's timer or by the decoder itself: the child may still be
					// busy with that case and is not reused. A loaded machine must not look like a hang: once
					// more, alone in a fresh child, with four times the time.
					if ok {
						wk.kill()
					}
					mu.Lock()
					respawns++
					mu.Unlock()
					ok = false
					if slowWk, _ := verifC04Spawn(testName, true); slowWk != nil {
						res, _ = slowWk.askT(cases[i], 4*verifC04CaseTimeout)
						slowWk.kill()
					}
				}
				results[i] = res
				if !ok {
					wk = nil
					mu.Lock()
					respawns++
					mu.Unlock()
				}
			}
		}()
	}
	wg.Wait()
	if spawnErr != nil {
		t.Fatalf("cannot start a child process: %v", spawnErr)
	}

	f, err := os.OpenFile(outPath, os.O_CREATE|os.O_WRONLY|os.O_APPEND, 0o644)
	if err != nil {
		t.Fatal(err)
	}
	defer f.Close()
	w := bufio.NewWriterSize(f, 1<<20)
	defer w.Flush()
	hist := map[string]int{}
	for i, c := range cases {
		r := results[i]
		if r.outcome == "" {
			r = verifC04Result{"panic", 0, "no-result"}
		}
		hist[c.dec+":"+r.outcome]++
		fmt.Fprintf(w, "dec %s %s %s %d %s\n", c.dec, verifC04Hex(c.in), r.outcome, r.alloc, r.canon)
	}
	var keys []string
	for k := range hist {
		keys = append(keys, k)
	}
	sort.Strings(keys)
	var parts []string
	for _, k := range keys {
		parts = append(parts, fmt.Sprintf("%s=%d", k, hist[k]))
	}
	fmt.Fprintf(w, "# C04 %s cases=%d children-replaced=%d %s\n", testName, len(cases), respawns, strings.Join(parts, " "))
}

// ---- generic mutators ----

// verifC04Truncations: every proper prefix (all offsets up to 600 bytes, then a stride).
func verifC04Truncations(dec string, msg []byte) (out []verifC04Case) {
	step := 1
	for i := 0; i < len(msg); i += step {
		out = append(out, verifC04Case{dec, append([]byte(nil), msg[:i]...)})
		if i >= 600 {
			step = 97
		}
	}
	return
}

// verifC04Random: n seeded random mutations of msg (bit flips, byte sets, insertions, deletions, splices).
func verifC04Random(dec string, msg []byte, n int, r *verifC04Rng) (out []verifC04Case) {
	interesting := []byte{0x00, 0x01, 0x17, 0x18, 0x19, 0x1a, 0x1b, 0x1f, 0x40, 0x5b, 0x7b, 0x80, 0x82, 0x9b, 0x9f, 0xbb, 0xbf, 0xf5, 0xfb, 0xff}
	for i := 0; i < n; i++ {
		m := append([]byte(nil), msg...)
		for k := 1 + r.intn(3); k > 0; k-- {
			if len(m) == 0 {
				m = append(m, byte(r.next()))
				continue
			}
			p := r.intn(len(m))
			switch r.intn(6) {
			case 0:
				m[p] ^= 1 << uint(r.intn(8))
			case 1:
				m[p] = interesting[r.intn(len(interesting))]
			case 2:
				m[p] = byte(r.next())
			case 3: // insert
				ins := []byte{interesting[r.intn(len(interesting))]}
				for j := r.intn(9); j > 0; j-- {
					ins = append(ins, 0xff)
				}
				m = append(m[:p], append(ins, m[p:]...)...)
			case 4: // delete
				q := p + 1 + r.intn(4)
				if q > len(m) {
					q = len(m)
				}
				m = append(m[:p], m[q:]...)
			case 5: // duplicate a chunk
				q := p + 1 + r.intn(16)
				if q > len(m) {
					q = len(m)
				}
				m = append(m[:q], append(append([]byte(nil), m[p:q]...), m[q:]...)...)
			}
		}
		if len(m) > 65536 {
			m = m[:65536]
		}
		out = append(out, verifC04Case{dec, m})
	}
	return
}

// ---- CBOR trees (structure-aware boundary values) ----

// verifC04Node is one CBOR item of a message. Byte strings whose content is itself a CBOR sequence keep
// it as children (emb), so that a lying head deep inside a block still arrives at its decoder with all
// enclosing byte-string lengths honest.
type verifC04Node struct {
	raw      byte   // 0x9f / 0xff single-byte items, 0 otherwise
	major    byte   // 0..7
	arg      uint64 // argument of the head as it will be written
	width    int    // 0 = shortest encoding, else 1,2,4,8 argument bytes
	payload  []byte // major 2/3 without embedded items
	emb      []*verifC04Node
	children []*verifC04Node // major 4/5 and indefinite arrays: the items that follow (informational)
	lie      bool            // arg is not recomputed from the content
}

func verifC04Head(major byte, arg uint64, width int) []byte {
	if width == 0 {
		switch {
		case arg < 24:
			return []byte{major<<5 | byte(arg)}
		case arg < 1<<8:
			width = 1
		case arg < 1<<16:
			width = 2
		case arg < 1<<32:
			width = 4
		default:
			width = 8
		}
	}
	ai := map[int]byte{1: 24, 2: 25, 4: 26, 8: 27}[width]
	out := []byte{major<<5 | ai}
	for i := width - 1; i >= 0; i-- {
		out = append(out, byte(arg>>(8*uint(i))))
	}
	return out
}

// verifC04Parse parses a CBOR sequence into a flat list of nodes (heads in wire order).
func verifC04Parse(b []byte) (nodes []*verifC04Node, ok bool) {
	for len(b) > 0 {
		c := b[0]
		if c == 0x9f || c == 0xff {
			nodes = append(nodes, &verifC04Node{raw: c})
			b = b[1:]
			continue
		}
		major, ai := c>>5, c&0x1f
		n := &verifC04Node{major: major}
		b = b[1:]
		switch {
		case ai < 24:
			n.arg = uint64(ai)
		case ai <= 27:
			w := 1 << (ai - 24)
			if len(b) < w {
				return nil, false
			}
			for i := 0; i < w; i++ {
				n.arg = n.arg<<8 | uint64(b[i])
			}
			b = b[w:]
		default:
			return nil, false
		}
		if major == 2 || major == 3 {
			if uint64(len(b)) < n.arg {
				return nil, false
			}
			n.payload = append([]byte(nil), b[:n.arg]...)
			b = b[n.arg:]
			if major == 2 && len(n.payload) > 0 {
				if emb, ok := verifC04Parse(n.payload); ok && len(emb) > 0 && (emb[0].major == 4 || emb[0].major == 5 || emb[0].raw != 0) {
					n.emb = emb
				}
			}
		}
		nodes = append(nodes, n)
	}
	return nodes, true
}

func verifC04Encode(nodes []*verifC04Node) []byte {
	var out []byte
	for _, n := range nodes {
		if n.raw != 0 {
			out = append(out, n.raw)
			continue
		}
		if n.major == 2 || n.major == 3 {
			content := n.payload
			if n.emb != nil {
				content = verifC04Encode(n.emb)
			}
			arg := uint64(len(content))
			if n.lie {
				arg = n.arg
			}
			out = append(out, verifC04Head(n.major, arg, n.width)...)
			out = append(out, content...)
			continue
		}
		out = append(out, verifC04Head(n.major, n.arg, n.width)...)
	}
	return out
}

// verifC04AllNodes lists every node (including embedded ones) in wire order.
func verifC04AllNodes(nodes []*verifC04Node) (all []*verifC04Node) {
	for _, n := range nodes {
		all = append(all, n)
		if n.emb != nil {
			all = append(all, verifC04AllNodes(n.emb)...)
		}
	}
	return
}

// verifC04CborBoundaries: the message with every head argument (every count, length, integer) replaced
// by every boundary value, shortest and 8-byte encodings, enclosing byte strings re-measured.
func verifC04CborBoundaries(dec string, msg []byte) (out []verifC04Case) {
	nodes, ok := verifC04Parse(msg)
	if !ok {
		return nil
	}
	all := verifC04AllNodes(nodes)
	for _, n := range all {
		if n.raw != 0 {
			continue
		}
		saved := *n
		for _, v := range verifC04Boundary {
			for _, width := range []int{0, 8} {
				// the 8 byte form of a small value (a non-shortest encoding) only for a few of them
				if width == 8 && !(v == 0 || v == 24 || v == 1<<31) {
					continue
				}
				n.arg, n.width, n.lie = v, width, true
				enc := verifC04Encode(nodes)
				if len(enc) <= 65536+16 {
					out = append(out, verifC04Case{dec, enc})
				}
			}
		}
		*n = saved
	}
	return
}

// verifC04FieldBoundaries: big-endian fixed-width fields at the given offsets set to every boundary value
// (reduced to the field width, plus the field's maximum).
func verifC04FieldBoundaries(dec string, msg []byte, fields [][2]int) (out []verifC04Case) {
	for _, f := range fields {
		off, w := f[0], f[1]
		if off+w > len(msg) {
			continue
		}
		vals := append([]uint64(nil), verifC04Boundary...)
		if w < 8 {
			vals = append(vals, 1<<(8*uint(w))-1, 1<<(8*uint(w)-1))
		}
		for _, v := range vals {
			m := append([]byte(nil), msg...)
			for i := 0; i < w; i++ {
				m[off+i] = byte(v >> (8 * uint(w-1-i)))
			}
			out = append(out, verifC04Case{dec, m})
		}
	}
	return
}
