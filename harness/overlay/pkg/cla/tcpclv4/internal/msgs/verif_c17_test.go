package msgs

// Correspondence harness for C17, TCPCLv4 contact header + messages (attached with `go test -overlay`;
// never part of /repo). One observation per line on $VERIF_OUT; format: /verif/lean/Driver/C17.lean.
//
//   tcpcl enc <desc> <hex of Marshal | merr> <trailer hex> <result of ReadMessage(hex ++ trailer)>
//   tcpcl dec <hex> <result of ReadMessage(hex)>
//   tcpcl stream <desc~desc~…> <hex of all Marshal outputs> <desc@offset~…[~!eof|!inv]>
//
// result = ok/<desc>/<consumed bytes> | err/eof | err/inv | panic

import (
	"bufio"
	"bytes"
	"encoding/hex"
	"fmt"
	"math"
	"os"
	"strconv"
	"strings"
	"testing"
)

type c17Rng struct{ s uint64 }

func (r *c17Rng) next() uint64 {
	r.s += 0x9e3779b97f4a7c15
	z := r.s
	z = (z ^ (z >> 30)) * 0xbf58476d1ce4e5b9
	z = (z ^ (z >> 27)) * 0x94d049bb133111eb
	return z ^ (z >> 31)
}
func (r *c17Rng) intn(n int) int { return int(r.next() % uint64(n)) }
func (r *c17Rng) bytes(n int) []byte {
	b := make([]byte, n)
	for i := range b {
		b[i] = byte(r.next())
	}
	return b
}

// edge picks 0, 1, max or a random value of a `bits` wide field.
func (r *c17Rng) edge(bits uint) uint64 {
	max := uint64(math.MaxUint64)
	if bits < 64 {
		max = (uint64(1) << bits) - 1
	}
	switch r.intn(5) {
	case 0:
		return 0
	case 1:
		return 1
	case 2:
		return max
	case 3:
		return r.next() & max
	default:
		return r.next() & max >> uint(r.intn(int(bits)))
	}
}

func c17Hex(b []byte) string {
	if len(b) == 0 {
		return "-"
	}
	return hex.EncodeToString(b)
}

func c17Desc(m Message) string {
	switch v := m.(type) {
	case *ContactHeader:
		return fmt.Sprintf("ch:%d", uint8(v.Flags))
	case *SessionInitMessage:
		return fmt.Sprintf("si:%d:%d:%d:%s", v.KeepaliveInterval, v.SegmentMru, v.TransferMru, c17Hex([]byte(v.NodeId)))
	case *SessionTerminationMessage:
		return fmt.Sprintf("st:%d:%d", uint8(v.Flags), uint8(v.ReasonCode))
	case *DataTransmissionMessage:
		return fmt.Sprintf("xs:%d:%d:%s", uint8(v.Flags), v.TransferId, c17Hex(v.Data))
	case *DataAcknowledgementMessage:
		return fmt.Sprintf("xa:%d:%d:%d", uint8(v.Flags), v.TransferId, v.AckLen)
	case *TransferRefusalMessage:
		return fmt.Sprintf("xr:%d:%d", uint8(v.ReasonCode), v.TransferId)
	case *KeepaliveMessage:
		return "ka"
	case *MessageRejectionMessage:
		return fmt.Sprintf("mr:%d:%d", uint8(v.ReasonCode), v.MessageHeader)
	}
	return "?"
}

func c17ErrClass(err error) string {
	if strings.Contains(err.Error(), "EOF") {
		return "err/eof"
	}
	return "err/inv"
}

func c17Read(b []byte) (res string) {
	defer func() {
		if p := recover(); p != nil {
			res = "panic"
		}
	}()
	r := bytes.NewReader(b)
	m, err := ReadMessage(r)
	if err != nil {
		return c17ErrClass(err)
	}
	return fmt.Sprintf("ok/%s/%d", c17Desc(m), len(b)-r.Len())
}

func c17Marshal(m Message) ([]byte, bool) {
	var buf bytes.Buffer
	if err := m.Marshal(&buf); err != nil {
		return nil, false
	}
	return buf.Bytes(), true
}

func TestVerifC17(t *testing.T) {
	outPath := os.Getenv("VERIF_OUT")
	if outPath == "" {
		t.Skip("VERIF_OUT not set")
	}
	f, err := os.Create(outPath)
	if err != nil {
		t.Fatal(err)
	}
	defer f.Close()
	w := bufio.NewWriterSize(f, 1<<20)
	defer w.Flush()
	seed, _ := strconv.ParseUint(os.Getenv("VERIF_SEED"), 10, 64)
	thorough := os.Getenv("VERIF_TIER") == "thorough"
	r := &c17Rng{s: seed*2654435761 + 17}

	emitEnc := func(m Message) {
		enc, ok := c17Marshal(m)
		if !ok {
			fmt.Fprintf(w, "tcpcl enc %s merr - -\n", c17Desc(m))
			return
		}
		trailer := r.bytes(r.intn(4))
		fmt.Fprintf(w, "tcpcl enc %s %s %s %s\n", c17Desc(m), c17Hex(enc), c17Hex(trailer), c17Read(append(append([]byte{}, enc...), trailer...)))
	}
	emitDec := func(b []byte) { fmt.Fprintf(w, "tcpcl dec %s %s\n", c17Hex(b), c17Read(b)) }

	u16 := []uint16{0, 1, math.MaxUint16}
	u64 := []uint64{0, 1, math.MaxUint64}
	lens := []int{0, 1, 23, 24, 255, 256, 65535}

	// ---- contact header: all 256 flag values; every head byte at all 256 values; truncations
	for fl := 0; fl < 256; fl++ {
		emitEnc(NewContactHeader(ContactFlags(fl)))
	}
	good, _ := c17Marshal(NewContactHeader(1))
	for pos := 0; pos < 5; pos++ {
		for v := 0; v < 256; v++ {
			b := append([]byte{}, good...)
			b[pos] = byte(v)
			if pos == 0 && v != 0x64 {
				// another first byte selects another message type: give it a harmless all-zero tail
				b = append([]byte{byte(v)}, make([]byte, 40)...)
			}
			emitDec(b)
		}
	}
	for k := 0; k <= len(good); k++ {
		emitDec(good[:k])
	}

	// ---- SESS_INIT: every numeric field at 0, 1, max x node id lengths
	for _, l := range lens {
		full := l <= 23
		for _, k := range u16 {
			for _, s := range u64 {
				for _, tm := range u64 {
					if !full && r.intn(9) != 0 {
						continue
					}
					emitEnc(NewSessionInitMessage(k, s, tm, string(r.bytes(l))))
				}
			}
		}
		emitEnc(NewSessionInitMessage(uint16(r.edge(16)), r.edge(64), r.edge(64), string(r.bytes(l))))
	}
	nRand := 10
	if thorough {
		nRand = 400
	}
	for i := 0; i < nRand; i++ {
		emitEnc(NewSessionInitMessage(uint16(r.edge(16)), r.edge(64), r.edge(64), string(r.bytes(r.intn(70000)))))
	}
	// node ids that do not fit the 16 bit length field: the length is truncated on the wire
	for _, l := range []int{65536, 65537, 65536 + 300} {
		// (zero bytes: the first four of them are then read as the extension length, which must stay small)
		emitEnc(NewSessionInitMessage(1, 2, 3, string(make([]byte, l))))
	}
	// session extension items area: announced length 0..5, 300 with enough / too few bytes behind it
	base, _ := c17Marshal(NewSessionInitMessage(30, 1024, 4096, "dtn://x/"))
	base = base[:len(base)-4]
	for _, el := range []int{0, 1, 2, 5, 300} {
		for _, have := range []int{0, el - 1, el, el + 3} {
			if have < 0 {
				continue
			}
			b := append(append([]byte{}, base...), byte(el>>24), byte(el>>16), byte(el>>8), byte(el))
			b = append(b, r.bytes(have)...)
			emitDec(b)
		}
	}
	full, _ := c17Marshal(NewSessionInitMessage(30, 1024, 4096, "dtn://x/"))
	for k := 0; k <= len(full); k++ {
		emitDec(full[:k])
	}

	// ---- SESS_TERM / XFER_REFUSE / MSG_REJECT: ALL 256 code values (x flag / id edge values)
	for c := 0; c < 256; c++ {
		for _, fl := range []uint8{0, 1, 255} {
			emitEnc(NewSessionTerminationMessage(SessionTerminationFlags(fl), SessionTerminationCode(c)))
		}
		for _, tid := range u64 {
			emitEnc(NewTransferRefusalMessage(TransferRefusalCode(c), tid))
		}
		for _, h := range []uint8{0, 1, 255} {
			emitEnc(NewMessageRejectionMessage(MessageRejectionReason(c), h))
		}
	}
	for h := 0; h < 256; h++ {
		emitEnc(NewMessageRejectionMessage(RejectionUnsupported, uint8(h)))
		emitEnc(NewSessionTerminationMessage(SessionTerminationFlags(h), TerminationBusy))
	}
	for _, m := range []Message{NewSessionTerminationMessage(1, 3), NewTransferRefusalMessage(2, 77), NewMessageRejectionMessage(1, 9),
		NewKeepaliveMessage(), NewDataAcknowledgementMessage(3, 5, 6)} {
		enc, _ := c17Marshal(m)
		for k := 0; k <= len(enc); k++ {
			emitDec(enc[:k])
		}
	}

	// ---- XFER_SEGMENT / XFER_ACK
	for fl := 0; fl < 256; fl++ {
		emitEnc(NewDataTransmissionMessage(SegmentFlags(fl), r.edge(64), r.bytes(r.intn(5))))
		emitEnc(NewDataAcknowledgementMessage(SegmentFlags(fl), r.edge(64), r.edge(64)))
	}
	for _, tid := range u64 {
		for _, l := range lens {
			emitEnc(NewDataTransmissionMessage(SegmentFlags(r.intn(4)), tid, r.bytes(l)))
		}
		for _, al := range u64 {
			emitEnc(NewDataAcknowledgementMessage(SegmentFlags(r.intn(4)), tid, al))
		}
	}
	emitEnc(NewDataTransmissionMessage(3, 1, nil))
	for i := 0; i < nRand; i++ {
		emitEnc(NewDataTransmissionMessage(SegmentFlags(r.intn(4)), r.edge(64), r.bytes(r.intn(70000))))
	}
	// transfer extension items area + data length vs. available bytes (lengths kept small on purpose:
	// huge announced lengths are C04's subject)
	// — for every combination of the START and END flags: the items are skipped whatever the segment's position)
	for _, segFl := range []byte{3, 0, 1, 2} {
		segHead := []byte{XFER_SEGMENT, segFl, 0, 0, 0, 0, 0, 0, 0, 9}
		for _, el := range []int{0, 1, 4, 300} {
			for _, dl := range []int{0, 1, 5} {
				for _, have := range []int{0, el, el + 7, el + 8, el + 8 + dl - 1, el + 8 + dl, el + 8 + dl + 2} {
					if have < 0 {
						continue
					}
					b := append(append([]byte{}, segHead...), byte(el>>24), byte(el>>16), byte(el>>8), byte(el))
					tail := append(r.bytes(el), 0, 0, 0, 0, 0, 0, 0, byte(dl))
					tail = append(tail, r.bytes(dl+2)...)
					if have < len(tail) {
						tail = tail[:have]
					}
					emitDec(append(b, tail...))
				}
			}
		}
	}
	xs, _ := c17Marshal(NewDataTransmissionMessage(2, 9, []byte("abc")))
	for k := 0; k <= len(xs); k++ {
		emitDec(xs[:k])
	}

	// ---- dispatch: ALL 256 type bytes, each followed by (a) nothing, (b) zeros, (c) a valid body of every type
	for tb := 0; tb < 256; tb++ {
		emitDec([]byte{byte(tb)})
		emitDec(append([]byte{byte(tb)}, make([]byte, 48)...))
	}
	samples := []Message{NewContactHeader(0), NewSessionInitMessage(1, 2, 3, "n"), NewSessionTerminationMessage(0, 1),
		NewDataTransmissionMessage(1, 2, []byte{1}), NewDataAcknowledgementMessage(1, 2, 3), NewTransferRefusalMessage(1, 2),
		NewKeepaliveMessage(), NewMessageRejectionMessage(1, 2)}
	for _, m := range samples {
		enc, _ := c17Marshal(m)
		for _, tb := range []byte{0, XFER_SEGMENT, XFER_ACK, XFER_REFUSE, KEEPALIVE, SESS_TERM, MSG_REJECT, SESS_INIT, 8, 0x64, 0xff} {
			if tb == XFER_SEGMENT || tb == SESS_INIT {
				continue // would reinterpret arbitrary bytes as (possibly huge) length fields
			}
			b := append([]byte{tb}, enc[1:]...)
			emitDec(b)
		}
	}

	// ---- streams: 1..20 random messages written to one buffer and read back one after the other
	randMsg := func() Message {
		switch r.intn(8) {
		case 0:
			return NewContactHeader(ContactFlags(r.next()))
		case 1:
			return NewSessionInitMessage(uint16(r.edge(16)), r.edge(64), r.edge(64), string(r.bytes(r.intn(40))))
		case 2:
			return NewSessionTerminationMessage(SessionTerminationFlags(r.next()), SessionTerminationCode(r.intn(6)))
		case 3:
			return NewDataTransmissionMessage(SegmentFlags(r.next()), r.edge(64), r.bytes(r.intn(60)))
		case 4:
			return NewDataAcknowledgementMessage(SegmentFlags(r.next()), r.edge(64), r.edge(64))
		case 5:
			return NewTransferRefusalMessage(TransferRefusalCode(r.intn(7)), r.edge(64))
		case 6:
			return NewKeepaliveMessage()
		default:
			return NewMessageRejectionMessage(MessageRejectionReason(1+r.intn(3)), uint8(r.next()))
		}
	}
	nStreams := 150
	if thorough {
		nStreams = 1500
	}
	for i := 0; i < nStreams; i++ {
		n := 1 + r.intn(20)
		var descs []string
		var buf bytes.Buffer
		for j := 0; j < n; j++ {
			m := randMsg()
			// occasionally poison the stream with an invalid code in the middle
			if i%10 == 9 && j == n/2 {
				m = NewSessionTerminationMessage(0, SessionTerminationCode(6+r.intn(250)))
			}
			descs = append(descs, c17Desc(m))
			_ = m.Marshal(&buf)
		}
		all := buf.Bytes()
		rd := bytes.NewReader(all)
		var got []string
		for rd.Len() > 0 {
			m, err := ReadMessage(rd)
			if err != nil {
				got = append(got, "!"+c17ErrClass(err)[4:])
				break
			}
			got = append(got, fmt.Sprintf("%s@%d", c17Desc(m), len(all)-rd.Len()))
		}
		gs := "-"
		if len(got) > 0 {
			gs = strings.Join(got, "~")
		}
		fmt.Fprintf(w, "tcpcl stream %s %s %s\n", strings.Join(descs, "~"), c17Hex(all), gs)
	}
}
