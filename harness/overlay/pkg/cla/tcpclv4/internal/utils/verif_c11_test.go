package utils

// Correspondence harness for C11 (attached to the package with `go test -overlay`; never part of /repo).
// Writes one observation per line to $VERIF_OUT; see /verif/lean/Driver/C11.lean for the format.

import (
	"bufio"
	"bytes"
	"encoding/hex"
	"fmt"
	"go/ast"
	"go/parser"
	"go/token"
	"io"
	"os"
	"strconv"
	"strings"
	"sync"
	"testing"
	"time"

	"github.com/dtn7/dtn7-go/pkg/bpv7"
	"github.com/dtn7/dtn7-go/pkg/cla/tcpclv4/internal/msgs"
)

type verifRng struct{ s uint64 }

func (r *verifRng) next() uint64 {
	r.s += 0x9e3779b97f4a7c15
	z := r.s
	z = (z ^ (z >> 30)) * 0xbf58476d1ce4e5b9
	z = (z ^ (z >> 27)) * 0x94d049bb133111eb
	return z ^ (z >> 31)
}
func (r *verifRng) intn(n int) int { return int(r.next() % uint64(n)) }

func verifHex(b []byte) string {
	if len(b) == 0 {
		return "-"
	}
	return hex.EncodeToString(b)
}

func verifSegs(segs []*msgs.DataTransmissionMessage) string {
	if len(segs) == 0 {
		return "-"
	}
	var parts []string
	for _, s := range segs {
		parts = append(parts, fmt.Sprintf("%d:%s", uint8(s.Flags), verifHex(s.Data)))
	}
	return strings.Join(parts, ",")
}

// verifRawSegments drives NewOutgoingTransfer/NextSegment on raw data.
func verifRawSegments(data []byte, mtu uint64) (segs []*msgs.DataTransmissionMessage, err error) {
	t, w := NewOutgoingTransfer(7)
	go func() {
		pw := w.(*io.PipeWriter)
		// write in irregular chunks: the segmentation must not depend on write boundaries
		for i := 0; i < len(data); {
			n := 1 + (i*7)%5
			if i+n > len(data) {
				n = len(data) - i
			}
			_, _ = pw.Write(data[i : i+n])
			i += n
		}
		_ = pw.Close()
	}()
	for i := 0; i < len(data)+4; i++ {
		dtm, e := t.NextSegment(mtu)
		if e == io.EOF {
			return segs, nil
		} else if e != nil {
			return segs, e
		}
		segs = append(segs, dtm)
	}
	return segs, fmt.Errorf("no EOF after %d segments", len(segs))
}

// verifSourceInts returns the integer literals (2 <= c <= max) of the package's own non-test source files: sizes at
// which the code may change its behaviour (buffer sizes, chunk sizes, thresholds). `go test` runs in the package
// directory, so the files read are the ones of the tree under test.
func verifSourceInts(max uint64) (cs []uint64) {
	seen := map[uint64]bool{}
	ents, err := os.ReadDir(".")
	if err != nil {
		return nil
	}
	fset := token.NewFileSet()
	for _, e := range ents {
		n := e.Name()
		if !strings.HasSuffix(n, ".go") || strings.HasSuffix(n, "_test.go") {
			continue
		}
		f, err := parser.ParseFile(fset, n, nil, 0)
		if err != nil {
			continue
		}
		ast.Inspect(f, func(nd ast.Node) bool {
			if bl, ok := nd.(*ast.BasicLit); ok && bl.Kind == token.INT {
				if v, err := strconv.ParseUint(bl.Value, 0, 64); err == nil && v >= 2 && v <= max && !seen[v] {
					seen[v] = true
					cs = append(cs, v)
				}
			}
			return true
		})
	}
	return
}

func verifBundle(payloadLen int, r *verifRng) bpv7.Bundle {
	pl := make([]byte, payloadLen)
	for i := range pl {
		pl[i] = byte(r.next())
	}
	b, err := bpv7.Builder().
		CRC(bpv7.CRC32).
		Source("dtn://src/").
		Destination("dtn://dst/").
		CreationTimestampNow().
		Lifetime("30m").
		HopCountBlock(64).
		PayloadBlock(pl).
		Build()
	if err != nil {
		panic(err)
	}
	return b
}

// verifXfer sends one bundle through two TransferManagers joined by tapped channels.
func verifXfer(b bpv7.Bundle, mtu uint64, waitDeliver time.Duration) (line string) {
	var enc bytes.Buffer
	if err := b.MarshalCbor(&enc); err != nil {
		return "# marshal error " + err.Error()
	}

	aOut := make(chan msgs.Message) // tm1 -> tap
	aIn := make(chan msgs.Message)  // tap -> tm1
	bOut := make(chan msgs.Message) // tm2 -> tap
	bIn := make(chan msgs.Message)  // tap -> tm2
	tm1 := NewTransferManager(aIn, aOut, mtu)
	tm2 := NewTransferManager(bIn, bOut, mtu)
	defer func() { _ = tm1.Close(); _ = tm2.Close() }()

	var mu sync.Mutex
	var segs []*msgs.DataTransmissionMessage
	var acks []string
	endAcked := false
	done := make(chan struct{})
	defer close(done)
	go func() {
		for {
			select {
			case <-done:
				return
			case m := <-aOut:
				if s, ok := m.(*msgs.DataTransmissionMessage); ok {
					mu.Lock()
					segs = append(segs, s)
					mu.Unlock()
				}
				select {
				case bIn <- m:
				case <-done:
					return
				}
			}
		}
	}()
	go func() {
		for {
			select {
			case <-done:
				return
			case m := <-bOut:
				if a, ok := m.(*msgs.DataAcknowledgementMessage); ok {
					mu.Lock()
					acks = append(acks, strconv.FormatUint(a.AckLen, 10))
					if a.Flags&msgs.SegmentEnd != 0 {
						endAcked = true
					}
					mu.Unlock()
				}
				select {
				case aIn <- m:
				case <-done:
					return
				}
			}
		}
	}()

	bundles, errs2 := tm2.Exchange()
	_, errs1 := tm1.Exchange()
	delivered := "none"
	var dmu sync.Mutex
	delivDone := make(chan struct{})
	go func() {
		select {
		case rb := <-bundles:
			var rbuf bytes.Buffer
			_ = rb.MarshalCbor(&rbuf)
			dmu.Lock()
			delivered = verifHex(rbuf.Bytes())
			dmu.Unlock()
			close(delivDone)
		case <-errs2:
			close(delivDone)
		case <-errs1:
			close(delivDone)
		case <-done:
		}
	}()

	res := "ok"
	if err := tm1.Send(b); err != nil {
		res = "err"
	}
	// Sampled at the moment Send returns: has an acknowledgement of the END segment come back?
	mu.Lock()
	endAckedAtReturn := endAcked
	mu.Unlock()
	if res == "ok" && !endAckedAtReturn {
		res = "ok-before-end-acked"
	}
	select {
	case <-delivDone:
	case <-time.After(waitDeliver):
	}
	mu.Lock()
	dmu.Lock()
	defer mu.Unlock()
	defer dmu.Unlock()
	ackS := "-"
	if len(acks) > 0 {
		ackS = strings.Join(acks, ",")
	}
	return fmt.Sprintf("xfer %d %s %s %s %s %s", mtu, verifHex(enc.Bytes()), verifSegs(segs), ackS, delivered, res)
}

// verifScripted runs Send against a scripted peer: the i-th segment is answered by script[i].
func verifScripted(b bpv7.Bundle, mtu uint64, script []string, l int) string {
	msgIn := make(chan msgs.Message)
	msgOut := make(chan msgs.Message)
	tm := NewTransferManager(msgIn, msgOut, mtu)
	defer func() { _ = tm.Close() }()
	done := make(chan struct{})
	defer close(done)
	go func() {
		i := 0
		for {
			select {
			case <-done:
				return
			case m := <-msgOut:
				s, ok := m.(*msgs.DataTransmissionMessage)
				if !ok {
					continue
				}
				if i < len(script) {
					it := script[i]
					var reply msgs.Message
					if it == "r" {
						reply = msgs.NewTransferRefusalMessage(msgs.RefusalUnknown, s.TransferId)
					} else if strings.HasPrefix(it, "r") {
						// r<code>: a refusal with that reason code (whatever the reason, a refusal is a failed transfer)
						n, _ := strconv.ParseUint(it[1:], 10, 8)
						reply = msgs.NewTransferRefusalMessage(msgs.TransferRefusalCode(n), s.TransferId)
					} else if strings.HasPrefix(it, "a") {
						n, _ := strconv.ParseUint(it[1:], 10, 64)
						reply = msgs.NewDataAcknowledgementMessage(s.Flags, s.TransferId, n)
					}
					if reply != nil {
						select {
						case msgIn <- reply:
						case <-done:
							return
						}
					}
				}
				i++
			}
		}
	}()
	res := "ok"
	if err := tm.Send(b); err != nil {
		res = "err"
	}
	return fmt.Sprintf("send %d %s %s", l, strings.Join(script, ","), res)
}

// verifConc: several concurrent Sends in both directions over one pair of TransferManagers.
// Logs the interleaved XFER_SEGMENT sequence per direction as seen on the wire (tap), the bundles
// handed up on each side (in order) and the Send results.
func verifConc(ab, ba []bpv7.Bundle, mtu uint64) []string {
	aOut := make(chan msgs.Message)
	aIn := make(chan msgs.Message)
	bOut := make(chan msgs.Message)
	bIn := make(chan msgs.Message)
	tmA := NewTransferManager(aIn, aOut, mtu)
	tmB := NewTransferManager(bIn, bOut, mtu)
	defer func() { _ = tmA.Close(); _ = tmB.Close() }()
	done := make(chan struct{})
	defer close(done)
	var mu sync.Mutex
	var wireAB, wireBA []string
	// A tap is an unbounded FIFO (like the buffered switch + TCP connection of the real client): it
	// never makes the sending manager wait for the receiving one.
	tap := func(from chan msgs.Message, to chan msgs.Message, logp *[]string) {
		var qmu sync.Mutex
		var q []msgs.Message
		sig := make(chan struct{}, 1)
		go func() {
			for {
				select {
				case <-done:
					return
				case m := <-from:
					if s, ok := m.(*msgs.DataTransmissionMessage); ok {
						mu.Lock()
						*logp = append(*logp, fmt.Sprintf("%d:%d:%s", s.TransferId, uint8(s.Flags), verifHex(s.Data)))
						mu.Unlock()
					}
					qmu.Lock()
					q = append(q, m)
					qmu.Unlock()
					select {
					case sig <- struct{}{}:
					default:
					}
				}
			}
		}()
		for {
			qmu.Lock()
			var m msgs.Message
			if len(q) > 0 {
				m = q[0]
				q = q[1:]
			}
			qmu.Unlock()
			if m == nil {
				select {
				case <-done:
					return
				case <-sig:
				}
				continue
			}
			select {
			case to <- m:
			case <-done:
				return
			}
		}
	}
	go tap(aOut, bIn, &wireAB)
	go tap(bOut, aIn, &wireBA)
	var gotA, gotB []string
	collect := func(tm *TransferManager, got *[]string, n int, fin chan struct{}) {
		bundles, errs := tm.Exchange()
		for i := 0; i < n; i++ {
			select {
			case rb := <-bundles:
				mu.Lock()
				*got = append(*got, verifHex(verifEnc(rb)))
				mu.Unlock()
			case e := <-errs:
				mu.Lock()
				*got = append(*got, "ERR:"+strings.ReplaceAll(e.Error(), " ", "_"))
				mu.Unlock()
				close(fin)
				return
			case <-time.After(5 * time.Second):
				close(fin)
				return
			}
		}
		close(fin)
	}
	finA, finB := make(chan struct{}), make(chan struct{})
	go collect(tmB, &gotB, len(ab), finB)
	go collect(tmA, &gotA, len(ba), finA)
	var wg sync.WaitGroup
	res := make([]string, len(ab)+len(ba))
	for i, b := range ab {
		wg.Add(1)
		go func(i int, b bpv7.Bundle) {
			defer wg.Done()
			if err := tmA.Send(b); err != nil {
				res[i] = "err"
			} else {
				res[i] = "ok"
			}
		}(i, b)
	}
	for i, b := range ba {
		wg.Add(1)
		go func(i int, b bpv7.Bundle) {
			defer wg.Done()
			if err := tmB.Send(b); err != nil {
				res[len(ab)+i] = "err"
			} else {
				res[len(ab)+i] = "ok"
			}
		}(i, b)
	}
	wg.Wait()
	<-finA
	<-finB
	mu.Lock()
	defer mu.Unlock()
	join := func(l []string) string {
		if len(l) == 0 {
			return "-"
		}
		return strings.Join(l, ",")
	}
	sentHex := func(bs []bpv7.Bundle) string {
		var l []string
		for _, b := range bs {
			l = append(l, verifHex(verifEnc(b)))
		}
		return join(l)
	}
	return []string{
		fmt.Sprintf("conc %d %s %s %s %s", mtu, sentHex(ab), join(wireAB), join(gotB), join(res[:len(ab)])),
		fmt.Sprintf("conc %d %s %s %s %s", mtu, sentHex(ba), join(wireBA), join(gotA), join(res[len(ab):])),
	}
}

func verifEnc(b bpv7.Bundle) []byte {
	var buf bytes.Buffer
	_ = b.MarshalCbor(&buf)
	return buf.Bytes()
}

func TestVerifC11(t *testing.T) {
	outPath := os.Getenv("VERIF_OUT")
	if outPath == "" {
		t.Skip("VERIF_OUT not set")
	}
	f, err := os.Create(outPath)
	if err != nil {
		t.Fatal(err)
	}
	defer f.Close()
	w := bufio.NewWriter(f)
	defer w.Flush()
	seed, _ := strconv.ParseUint(os.Getenv("VERIF_SEED"), 10, 64)
	thorough := os.Getenv("VERIF_TIER") == "thorough"
	r := &verifRng{s: seed*2654435761 + 11}

	// (1) raw segmentation: all 1 <= m <= L+2 for L = 1..maxL  (every divisor case)
	maxL := 48
	if thorough {
		maxL = 96
	}
	for l := 1; l <= maxL; l++ {
		data := make([]byte, l)
		for i := range data {
			data[i] = byte(r.next())
		}
		for m := 1; m <= l+2; m++ {
			segs, e := verifRawSegments(data, uint64(m))
			if e != nil {
				fmt.Fprintf(w, "# raw error L=%d m=%d: %v\n", l, m, e)
			}
			fmt.Fprintf(w, "seg %d %s %s\n", m, verifHex(data), verifSegs(segs))
		}
	}
	// larger random (L, m), biased to m | L
	nBig := 60
	if thorough {
		nBig = 600
	}
	for i := 0; i < nBig; i++ {
		m := 1 + r.intn(300)
		l := m * (1 + r.intn(8))
		if r.intn(3) == 0 {
			l += r.intn(m)
		}
		data := make([]byte, l)
		for j := range data {
			data[j] = byte(r.next())
		}
		segs, e := verifRawSegments(data, uint64(m))
		if e != nil {
			fmt.Fprintf(w, "# raw error L=%d m=%d: %v\n", l, m, e)
		}
		fmt.Fprintf(w, "seg %d %s %s\n", m, verifHex(data), verifSegs(segs))
	}

	// (1b) boundary sizes: lengths and segment sizes around every integer constant of the package's source and
	// around common buffer sizes (a multiple of the constant, one less, one more; the segment size below, at and
	// above it) -- where a chunked reader, a pooled buffer or a threshold would change the behaviour
	cmax, defaults := uint64(8192), []uint64{512, 4096}
	if thorough {
		cmax, defaults = 70000, []uint64{256, 512, 1024, 4096, 8192, 65536}
	}
	consts := verifSourceInts(cmax)
	for _, d := range defaults {
		dup := false
		for _, c := range consts {
			dup = dup || c == d
		}
		if !dup {
			consts = append(consts, d)
		}
	}
	fmt.Fprintf(w, "# boundary constants %v\n", consts)
	donePair := map[[2]uint64]bool{}
	for _, c := range consts {
		if c < 100 {
			continue // covered exhaustively by (1)
		}
		for _, l := range []uint64{c, 2 * c, 3 * c, c + 1, c - 1, 2*c + 1} {
			for _, m := range []uint64{c - 1, c, c + 1, 2 * c, 2*c + 1, c + c/2, l - 1, l, l + 1, l + 2, MaxSegmentMtu} {
				if m < 1 || donePair[[2]uint64{l, m}] || l/m > 64 {
					continue
				}
				donePair[[2]uint64{l, m}] = true
				data := make([]byte, l)
				for j := range data {
					data[j] = byte(r.next())
				}
				segs, e := verifRawSegments(data, m)
				if e != nil {
					fmt.Fprintf(w, "# raw error L=%d m=%d: %v\n", l, m, e)
				}
				fmt.Fprintf(w, "seg %d %s %s\n", m, verifHex(data), verifSegs(segs))
			}
		}
	}

	// (2) whole bundles through two TransferManagers; payload sizes sweep the encoded length
	var wg sync.WaitGroup
	var lmu sync.Mutex
	emit := func(s string) { lmu.Lock(); fmt.Fprintln(w, s); lmu.Unlock() }
	sem := make(chan struct{}, 16)
	pmax := 24
	if thorough {
		pmax = 140
	}
	for p := 1; p <= pmax; p++ {
		b := verifBundle(p, r)
		var enc bytes.Buffer
		_ = b.MarshalCbor(&enc)
		l := enc.Len()
		// all divisors of l, plus neighbours, plus some random sizes
		ms := map[int]bool{1: true, l: true, l + 1: true, l - 1: true, l + 2: true}
		for d := 1; d <= l; d++ {
			if l%d == 0 {
				ms[d] = true
			}
		}
		for k := 0; k < 4; k++ {
			ms[1+r.intn(l+2)] = true
		}
		for m := range ms {
			if m < 1 {
				continue
			}
			wg.Add(1)
			sem <- struct{}{}
			go func(b bpv7.Bundle, m int) {
				defer wg.Done()
				defer func() { <-sem }()
				emit(verifXfer(b, uint64(m), 8*time.Second))
			}(b, m)
		}
	}
	// whole bundles whose encoding has exactly a boundary length, sent with a larger segment size (the default)
	for _, c := range consts {
		if c < 100 || c > 9000 {
			continue
		}
		for p := int(c) - 120; p > 0 && p <= int(c); p++ {
			b := verifBundle(p, r)
			if uint64(len(verifEnc(b))) != c {
				continue
			}
			for _, m := range []uint64{MaxSegmentMtu, c + 1, 2 * c} {
				wg.Add(1)
				sem <- struct{}{}
				go func(b bpv7.Bundle, m uint64) {
					defer wg.Done()
					defer func() { <-sem }()
					emit(verifXfer(b, m, 8*time.Second))
				}(b, m)
			}
			break
		}
	}
	wg.Wait()
	if thorough {
		for _, sz := range []int{1 << 20, (1 << 20) - 77, 1<<20 + 12345} {
			b := verifBundle(sz, r)
			var enc bytes.Buffer
			_ = b.MarshalCbor(&enc)
			for _, m := range []int{1 << 20, enc.Len(), enc.Len() / 2, 65535} {
				emit(verifXfer(b, uint64(m), 20*time.Second))
			}
		}
	}

	// (2a') many small segments of several transfers in ONE direction at the same time: the per-transfer
	// state of the sender (stream position, segment buffer) must not be shared between transfers
	nDense := 4
	if thorough {
		nDense = 16
	}
	for i := 0; i < nDense; i++ {
		var ab []bpv7.Bundle
		for k := 0; k < 4; k++ {
			ab = append(ab, verifBundle(120+r.intn(80), r))
		}
		for _, line := range verifConc(ab, nil, uint64(1+i%3)) {
			emit(line)
		}
	}

	// (2b) concurrent senders in both directions
	nConc := 6
	if thorough {
		nConc = 40
	}
	for i := 0; i < nConc; i++ {
		var ab, ba []bpv7.Bundle
		for k := 0; k < 1+r.intn(4); k++ {
			ab = append(ab, verifBundle(1+r.intn(40), r))
		}
		for k := 0; k < r.intn(4); k++ {
			ba = append(ba, verifBundle(1+r.intn(40), r))
		}
		l0 := len(verifEnc(ab[0]))
		m := []int{1 + r.intn(l0+2), l0, 7, l0 / 2}[r.intn(4)]
		if m < 1 {
			m = 1
		}
		for _, line := range verifConc(ab, ba, uint64(m)) {
			emit(line)
		}
	}

	// (3) scripted peers (no timeouts in quick: every script ends in a decisive answer)
	b := verifBundle(10, r)
	var enc bytes.Buffer
	_ = b.MarshalCbor(&enc)
	l := enc.Len()
	mtu := (l + 3) / 4 // 4 segments (the last one short or full)
	nseg := (l + mtu - 1) / mtu
	good := []string{}
	for i := 1; i <= nseg; i++ {
		n := i * mtu
		if n > l {
			n = l
		}
		good = append(good, "a"+strconv.Itoa(n))
	}
	emit(verifScripted(b, uint64(mtu), good, l))
	for k := 0; k < nseg; k++ { // refuse after k good acks
		sc := append(append([]string{}, good[:k]...), "r")
		emit(verifScripted(b, uint64(mtu), sc, l))
		for code := 0; code <= 6; code++ { // every reason code of RFC 9174
			sc := append(append([]string{}, good[:k]...), "r"+strconv.Itoa(code))
			emit(verifScripted(b, uint64(mtu), sc, l))
		}
	}
	// wrong final ack followed by refusal; short acks then the right one
	sc := append(append([]string{}, good[:nseg-1]...), "a"+strconv.Itoa(l-1))
	if thorough {
		// no decisive answer: Send must time out (10 s each, run concurrently)
		var wg2 sync.WaitGroup
		for k := 0; k < nseg; k++ {
			wg2.Add(1)
			go func(k int) {
				defer wg2.Done()
				s := append([]string{}, good[:k]...)
				for len(s) < nseg {
					s = append(s, ".")
				}
				emit(verifScripted(b, uint64(mtu), s, l))
			}(k)
		}
		wg2.Add(1)
		go func() { defer wg2.Done(); emit(verifScripted(b, uint64(mtu), sc, l)) }()
		wg2.Wait()
	}
}
