package stages

// C04 harness for the sender side: a scripted TCPCLv4 peer declares a Segment MRU in its SESS_INIT
// (decoded by the real message reader, handled by the real SessInitStage); the negotiated segment size is
// then handed to a real utils.TransferManager which sends a bundle to a peer that acknowledges every
// segment. Decoder "mru": stage + send; decoder "sendmtu": TransferManager created directly with the value.
//
// input = mru (8 bytes, big endian) ‖ active peer flag (1 byte) ‖ payload length (4 bytes)
// canon = stage=ok|err,m=<SegmentMtu>,send=ok|err|timeout|skip,L=<encoded length>,nsegs=,max=,min=

import (
	"bytes"
	"encoding/binary"
	"fmt"
	"sync"
	"testing"
	"time"

	log "github.com/sirupsen/logrus"

	"github.com/dtn7/dtn7-go/pkg/bpv7"
	"github.com/dtn7/dtn7-go/pkg/cla/tcpclv4/internal/msgs"
	"github.com/dtn7/dtn7-go/pkg/cla/tcpclv4/internal/utils"
)

func verifC04Bundle(payload int) (bpv7.Bundle, int) {
	b, err := bpv7.Builder().
		Source("dtn://src/").Destination("dtn://dst/").
		CreationTimestampEpoch().Lifetime("10m").
		BundleAgeBlock(uint64(5)).
		PayloadBlock(bytes.Repeat([]byte{0x42}, payload)).
		Build()
	if err != nil {
		panic(err)
	}
	var buf bytes.Buffer
	if err := b.MarshalCbor(&buf); err != nil {
		panic(err)
	}
	return b, buf.Len()
}

// verifC04Send sends one bundle with the given segment size to an acknowledging peer.
func verifC04Send(mtu uint64, payload int) string {
	b, encLen := verifC04Bundle(payload)
	in := make(chan msgs.Message)
	out := make(chan msgs.Message)
	tm := utils.NewTransferManager(in, out, mtu)
	done := make(chan struct{})
	var mu sync.Mutex
	nsegs, maxSeg, minSeg, cum := 0, 0, -1, uint64(0)
	go func() {
		for {
			select {
			case <-done:
				return
			case m := <-out:
				seg, ok := m.(*msgs.DataTransmissionMessage)
				if !ok {
					continue
				}
				mu.Lock()
				nsegs++
				if l := len(seg.Data); l > maxSeg {
					maxSeg = l
				}
				if l := len(seg.Data); minSeg < 0 || l < minSeg {
					minSeg = l
				}
				cum += uint64(len(seg.Data))
				ack := msgs.NewDataAcknowledgementMessage(seg.Flags, seg.TransferId, cum)
				mu.Unlock()
				select {
				case in <- ack:
				case <-done:
					return
				}
			}
		}
	}()
	res := make(chan error, 1)
	go func() { res <- tm.Send(b) }()
	send := "timeout"
	select {
	case err := <-res:
		if err == nil {
			send = "ok"
		} else {
			send = "err"
		}
	case <-time.After(verifC04Budget()):
	}
	// a sender that keeps emitting segments after Send returned shows up in the counters
	time.Sleep(20 * time.Millisecond)
	mu.Lock()
	defer mu.Unlock()
	close(done)
	_ = tm.Close()
	if minSeg < 0 {
		minSeg = 0
		if nsegs == 0 {
			minSeg = 1 // no segment at all: nothing empty was sent
		}
	}
	return fmt.Sprintf("send=%s,L=%d,nsegs=%d,max=%d,min=%d", send, encLen, nsegs, maxSeg, minSeg)
}

// verifC04Stage runs SessInitStage against a peer whose SESS_INIT declares the Segment MRU.
func verifC04Stage(mru uint64, active bool) (ok bool, mtu uint64, timedOut bool) {
	// the peer's message takes the way over the wire format
	var wire bytes.Buffer
	if err := msgs.NewSessionInitMessage(30, mru, 1<<30, "dtn://peer/").Marshal(&wire); err != nil {
		panic(err)
	}
	peerMsg, err := msgs.ReadMessage(&wire)
	if err != nil {
		panic(err)
	}
	msgIn := make(chan msgs.Message, 1)
	msgOut := make(chan msgs.Message, 1)
	state := &State{
		Configuration: Configuration{ActivePeer: active, Keepalive: 30, SegmentMru: 1048576, TransferMru: 1 << 30,
			NodeId: bpv7.MustNewEndpointID("dtn://me/")},
		MsgIn:  msgIn,
		MsgOut: msgOut,
	}
	msgIn <- peerMsg
	closeChan := make(chan struct{})
	fin := make(chan struct{})
	go func() { (&SessInitStage{}).Handle(state, closeChan); close(fin) }()
	select {
	case <-fin:
	case <-time.After(verifC04Budget()):
		close(closeChan)
		return false, 0, true
	}
	return state.StageError == nil, state.SegmentMtu, false
}

func verifC04Decoders() map[string]verifC04Dec {
	parse := func(in []byte) (v uint64, active bool, payload int, ok bool) {
		if len(in) != 13 {
			return
		}
		return binary.BigEndian.Uint64(in[:8]), in[8] != 0, int(binary.BigEndian.Uint32(in[9:])), true
	}
	return map[string]verifC04Dec{
		"mru": func(in []byte) (string, string) {
			v, active, payload, ok := parse(in)
			if !ok {
				return "error", "bad-input"
			}
			stOk, m, timedOut := verifC04Stage(v, active)
			if timedOut {
				return "timeout", "-"
			}
			if !stOk {
				return "value", fmt.Sprintf("stage=err,m=%d,send=skip,L=0,nsegs=0,max=0,min=1", m)
			}
			return "value", fmt.Sprintf("stage=ok,m=%d,%s", m, verifC04Send(m, payload))
		},
		"sendmtu": func(in []byte) (string, string) {
			v, _, payload, ok := parse(in)
			if !ok {
				return "error", "bad-input"
			}
			return "value", fmt.Sprintf("stage=ok,m=%d,%s", v, verifC04Send(v, payload))
		},
	}
}

func verifC04Gen(r *verifC04Rng, thorough bool) (cases []verifC04Case) {
	vals := append([]uint64(nil), verifC04Boundary...)
	vals = append(vals, 2, 3, 7, 100, 1000, 1<<20-1, 1<<20, 1<<20+1, 1<<40, 1<<47, 1<<48)
	for i := 0; i < 6; i++ {
		vals = append(vals, r.next()>>uint(r.intn(64)))
	}
	enc := func(v uint64, active bool, payload int) []byte {
		b := make([]byte, 13)
		binary.BigEndian.PutUint64(b, v)
		if active {
			b[8] = 1
		}
		binary.BigEndian.PutUint32(b[9:], uint32(payload))
		return b
	}
	for _, v := range vals {
		payloads := []int{0, 700}
		if v >= 100 {
			payloads = append(payloads, 50000)
		}
		if v >= 1<<20-1 && (thorough || v == 1<<20 || v == 1<<64-1) {
			payloads = append(payloads, 2500000) // longer than the segment size limit
		}
		for _, p := range payloads {
			cases = append(cases, verifC04Case{"mru", enc(v, false, p)}, verifC04Case{"sendmtu", enc(v, false, p)})
			cases = append(cases, verifC04Case{"mru", enc(v, true, p)})
		}
	}
	return
}

func TestVerifC04(t *testing.T) {
	log.SetLevel(log.PanicLevel)
	verifC04Main(t, "TestVerifC04", verifC04Decoders(), verifC04Gen)
}
