package stages

// C04 harness for the sender side: a scripted TCPCLv4 peer declares a Segment MRU in its SESS_INIT
// (decoded by the real message reader, handled by the real SessInitStage); the negotiated segment size is
// then handed to a real utils.TransferManager which sends a bundle to a peer that acknowledges every
// segment. Decoder "mru": stage + send; decoder "sendmtu": TransferManager created directly with the value.
//
// Decoder "tcpcl-consume": a byte stream of TCPCLv4 messages is decoded by msgs.ReadMessage and every decoded
// message is handed to the code that consumes it in a session: a contact header to ContactStage.Handle, a
// SESS_INIT to SessInitStage.Handle, everything else to SessEstablishedStage.handleMsgIn and from there to a
// real utils.TransferManager (IncomingTransfer.NextSegment, acknowledgements, ToBundle → bundle decoder).
// canon = msgs=<decoded>,acks=<XFER_ACKs emitted>,bundles=<delivered>,errs=<manager errors>
//
// input = mru (8 bytes, big endian) ‖ active peer flag (1 byte) ‖ payload length (4 bytes)
// canon = stage=ok|err,m=<SegmentMtu>,send=ok|err|timeout|skip,L=<encoded length>,nsegs=,max=,min=

import (
	"bytes"
	"encoding/binary"
	"fmt"
	"sync"
	"testing"
	"time"

	log "github.com/sirupsen/logrus"

	"github.com/dtn7/dtn7-go/pkg/bpv7"
	"github.com/dtn7/dtn7-go/pkg/cla/tcpclv4/internal/msgs"
	"github.com/dtn7/dtn7-go/pkg/cla/tcpclv4/internal/utils"
)

func verifC04Bundle(payload int) (bpv7.Bundle, int) {
	b, err := bpv7.Builder().
		Source("dtn://src/").Destination("dtn://dst/").
		CreationTimestampEpoch().Lifetime("10m").
		BundleAgeBlock(uint64(5)).
		PayloadBlock(bytes.Repeat([]byte{0x42}, payload)).
		Build()
	if err != nil {
		panic(err)
	}
	var buf bytes.Buffer
	if err := b.MarshalCbor(&buf); err != nil {
		panic(err)
	}
	return b, buf.Len()
}

// verifC04Send sends one bundle with the given segment size to an acknowledging peer.
func verifC04Send(mtu uint64, payload int) string {
	b, encLen := verifC04Bundle(payload)
	in := make(chan msgs.Message)
	out := make(chan msgs.Message)
	tm := utils.NewTransferManager(in, out, mtu)
	done := make(chan struct{})
	var mu sync.Mutex
	nsegs, maxSeg, minSeg, cum := 0, 0, -1, uint64(0)
	go func() {
		for {
			select {
			case <-done:
				return
			case m := <-out:
				seg, ok := m.(*msgs.DataTransmissionMessage)
				if !ok {
					continue
				}
				mu.Lock()
				nsegs++
				if l := len(seg.Data); l > maxSeg {
					maxSeg = l
				}
				if l := len(seg.Data); minSeg < 0 || l < minSeg {
					minSeg = l
				}
				cum += uint64(len(seg.Data))
				ack := msgs.NewDataAcknowledgementMessage(seg.Flags, seg.TransferId, cum)
				mu.Unlock()
				select {
				case in <- ack:
				case <-done:
					return
				}
			}
		}
	}()
	res := make(chan error, 1)
	go func() { res <- tm.Send(b) }()
	send := "timeout"
	select {
	case err := <-res:
		if err == nil {
			send = "ok"
		} else {
			send = "err"
		}
	case <-time.After(verifC04Budget()):
	}
	// a sender that keeps emitting segments after Send returned shows up in the counters
	time.Sleep(20 * time.Millisecond)
	mu.Lock()
	defer mu.Unlock()
	close(done)
	_ = tm.Close()
	if minSeg < 0 {
		minSeg = 0
		if nsegs == 0 {
			minSeg = 1 // no segment at all: nothing empty was sent
		}
	}
	return fmt.Sprintf("send=%s,L=%d,nsegs=%d,max=%d,min=%d", send, encLen, nsegs, maxSeg, minSeg)
}

// verifC04Stage runs SessInitStage against a peer whose SESS_INIT declares the Segment MRU.
func verifC04Stage(mru uint64, active bool) (ok bool, mtu uint64, timedOut bool) {
	// the peer's message takes the way over the wire format
	var wire bytes.Buffer
	if err := msgs.NewSessionInitMessage(30, mru, 1<<30, "dtn://peer/").Marshal(&wire); err != nil {
		panic(err)
	}
	peerMsg, err := msgs.ReadMessage(&wire)
	if err != nil {
		panic(err)
	}
	msgIn := make(chan msgs.Message, 1)
	msgOut := make(chan msgs.Message, 1)
	state := &State{
		Configuration: Configuration{ActivePeer: active, Keepalive: 30, SegmentMru: 1048576, TransferMru: 1 << 30,
			NodeId: bpv7.MustNewEndpointID("dtn://me/")},
		MsgIn:  msgIn,
		MsgOut: msgOut,
	}
	msgIn <- peerMsg
	closeChan := make(chan struct{})
	fin := make(chan struct{})
	go func() { (&SessInitStage{}).Handle(state, closeChan); close(fin) }()
	select {
	case <-fin:
	case <-time.After(verifC04Budget()):
		close(closeChan)
		return false, 0, true
	}
	return state.StageError == nil, state.SegmentMtu, false
}

// verifC04Consume pushes every message of the stream one step further, see above.
func verifC04Consume(in []byte) (string, string) {
	r := bytes.NewReader(in)
	var decoded []msgs.Message
	for r.Len() > 0 && len(decoded) < 4096 {
		m, err := msgs.ReadMessage(r)
		if err != nil {
			break
		}
		decoded = append(decoded, m)
	}
	if len(decoded) == 0 {
		return "error", "-"
	}

	tmIn := make(chan msgs.Message, len(decoded)+1)
	tmOut := make(chan msgs.Message, 16)
	tm := utils.NewTransferManager(tmIn, tmOut, 1048576)
	bundleChan, errChan := tm.Exchange()
	acks, bundles, errs := 0, 0, 0
	stop := make(chan struct{})
	drained := make(chan struct{})
	var mu sync.Mutex
	go func() {
		defer close(drained)
		for {
			select {
			case m := <-tmOut:
				if _, ok := m.(*msgs.DataAcknowledgementMessage); ok {
					mu.Lock()
					acks++
					mu.Unlock()
				}
			case <-bundleChan:
				mu.Lock()
				bundles++
				mu.Unlock()
			case <-errChan:
				mu.Lock()
				errs++
				mu.Unlock()
			case <-stop:
				return
			}
		}
	}()

	se := &SessEstablishedStage{state: &State{ExchangeMsgIn: tmIn}}
	forwarded := 0
	for _, m := range decoded {
		switch m.(type) {
		case *msgs.ContactHeader, *msgs.SessionInitMessage:
			msgIn := make(chan msgs.Message, 1)
			msgOut := make(chan msgs.Message, 2)
			state := &State{
				Configuration: Configuration{ActivePeer: false, Keepalive: 30, SegmentMru: 1048576, TransferMru: 1 << 30,
					NodeId: bpv7.MustNewEndpointID("dtn://me/")},
				MsgIn:  msgIn,
				MsgOut: msgOut,
			}
			msgIn <- m
			closeChan := make(chan struct{})
			fin := make(chan struct{})
			go func() {
				if _, isCh := m.(*msgs.ContactHeader); isCh {
					(&ContactStage{}).Handle(state, closeChan)
				} else {
					(&SessInitStage{}).Handle(state, closeChan)
				}
				close(fin)
			}()
			select {
			case <-fin:
			case <-time.After(verifC04Budget()):
				close(closeChan)
				close(stop)
				return "timeout", "-"
			}
		default:
			if err := se.handleMsgIn(m); err == nil {
				if _, isKeepalive := m.(*msgs.KeepaliveMessage); !isKeepalive {
					forwarded++
				}
			}
		}
	}
	// the manager answers every forwarded message with an acknowledgement or gives up with an error
	deadline := time.Now().Add(verifC04Budget())
	for {
		mu.Lock()
		done := errs > 0 || len(tmIn) == 0
		mu.Unlock()
		if done {
			break
		}
		if time.Now().After(deadline) {
			close(stop)
			return "timeout", "-"
		}
		time.Sleep(200 * time.Microsecond)
	}
	// let the last message run through NextSegment / ToBundle
	for i := 0; i < 50; i++ {
		time.Sleep(200 * time.Microsecond)
		mu.Lock()
		settled := errs > 0 || acks+bundles >= forwarded
		mu.Unlock()
		if settled {
			break
		}
	}
	time.Sleep(time.Millisecond)
	_ = tm.Close()
	close(stop)
	<-drained
	return "value", fmt.Sprintf("msgs=%d,acks=%d,bundles=%d,errs=%d", len(decoded), acks, bundles, errs)
}

func verifC04Wire(m msgs.Message) []byte {
	var buf bytes.Buffer
	if err := m.Marshal(&buf); err != nil {
		panic(err)
	}
	return buf.Bytes()
}

// verifC04Item is one Transfer Extension Item of RFC 9174: flags, type, length, value.
func verifC04Item(flags byte, typ uint16, value []byte) []byte {
	out := []byte{flags, byte(typ >> 8), byte(typ), byte(len(value) >> 8), byte(len(value))}
	return append(out, value...)
}

// verifC04Segment is an XFER_SEGMENT whose Transfer Extension Items are the given bytes.
func verifC04Segment(flags msgs.SegmentFlags, tid uint64, items []byte, data []byte) []byte {
	seg := verifC04Wire(msgs.NewDataTransmissionMessage(flags, tid, data))
	out := append([]byte(nil), seg[:10]...)
	out = append(out, byte(len(items)>>24), byte(len(items)>>16), byte(len(items)>>8), byte(len(items)))
	out = append(out, items...)
	return append(out, seg[14:]...)
}

func verifC04U64(v uint64) []byte {
	b := make([]byte, 8)
	binary.BigEndian.PutUint64(b, v)
	return b
}

func verifC04ConsumeCases(r *verifC04Rng, thorough bool) (cases []verifC04Case) {
	nRand := 60
	if thorough {
		nRand = 1500
	}
	add := func(stream []byte, random int) {
		cases = append(cases, verifC04Case{"tcpcl-consume", stream})
		cases = append(cases, verifC04Random("tcpcl-consume", stream, random, r)...)
	}
	_, bundleLen := verifC04Bundle(40)
	b, _ := verifC04Bundle(40)
	var enc bytes.Buffer
	_ = b.MarshalCbor(&enc)
	data := enc.Bytes()
	_ = bundleLen

	// the Transfer Length extension (type 0x0001, 8 byte value) with every boundary value, on START segments
	// carrying one byte / the whole bundle, alone and followed by the rest of the transfer
	for _, v := range verifC04Boundary {
		for _, fl := range []byte{0x00, 0x01} { // critical flag
			items := verifC04Item(fl, 0x0001, verifC04U64(v))
			add(verifC04Segment(msgs.SegmentStart, 1, items, data[:1]), 0)
			add(verifC04Segment(msgs.SegmentStart|msgs.SegmentEnd, 2, items, data), 0)
			two := append(verifC04Segment(msgs.SegmentStart, 3, items, data[:10]), verifC04Segment(msgs.SegmentEnd, 3, nil, data[10:])...)
			add(two, 0)
			// the same item on a non-START segment and twice in one segment
			add(append(verifC04Segment(msgs.SegmentStart, 4, nil, data[:10]), verifC04Segment(msgs.SegmentEnd, 4, items, data[10:])...), 0)
			add(verifC04Segment(msgs.SegmentStart, 5, append(append([]byte(nil), items...), items...), data[:1]), 0)
		}
	}
	// unknown item types, odd value lengths, truncated items, length fields lying inside the items
	for _, typ := range []uint16{0x0000, 0x0002, 0x7fff, 0x8000, 0xffff} {
		for _, n := range []int{0, 1, 7, 8, 9, 300} {
			for _, fl := range []byte{0x00, 0x01, 0xff} {
				add(verifC04Segment(msgs.SegmentStart|msgs.SegmentEnd, 6, verifC04Item(fl, typ, bytes.Repeat([]byte{0xab}, n)), data), 0)
			}
		}
	}
	for _, n := range []int{0, 1, 7, 9, 300} {
		add(verifC04Segment(msgs.SegmentStart|msgs.SegmentEnd, 7, verifC04Item(0, 0x0001, bytes.Repeat([]byte{0xff}, n)), data), 0)
	}
	base := verifC04Item(0, 0x0001, verifC04U64(uint64(len(data))))
	for cut := 0; cut < len(base); cut++ {
		add(verifC04Segment(msgs.SegmentStart|msgs.SegmentEnd, 8, base[:cut], data), 0)
	}
	for _, v := range []uint16{0, 1, 7, 9, 0x7fff, 0xffff} {
		it := append([]byte(nil), base...)
		it[3], it[4] = byte(v>>8), byte(v)
		add(verifC04Segment(msgs.SegmentStart|msgs.SegmentEnd, 9, it, data), 0)
	}
	// honest transfers in several segment sizes; every flag combination; segments after END; unknown ids
	for _, m := range []int{1, 7, len(data), len(data) + 5} {
		var stream []byte
		for i := 0; i < len(data); i += m {
			j := i + m
			if j > len(data) {
				j = len(data)
			}
			var fl msgs.SegmentFlags
			if i == 0 {
				fl |= msgs.SegmentStart
			}
			if j == len(data) {
				fl |= msgs.SegmentEnd
			}
			stream = append(stream, verifC04Segment(fl, 10, base, data[i:j])...)
		}
		add(stream, nRand)
		add(append(append([]byte(nil), stream...), stream...), nRand/4)
	}
	for fl := 0; fl < 256; fl += 1 {
		if !thorough && fl > 8 && fl%37 != 0 {
			continue
		}
		add(verifC04Segment(msgs.SegmentFlags(fl), 11, base, data), 0)
	}
	// a whole session: contact header, SESS_INIT, transfer, acknowledgement/refusal for unknown transfers,
	// keep-alive, rejection, termination
	session := verifC04Wire(msgs.NewContactHeader(0))
	session = append(session, verifC04Wire(msgs.NewSessionInitMessage(30, 1048576, 1<<30, "dtn://peer/"))...)
	session = append(session, verifC04Segment(msgs.SegmentStart|msgs.SegmentEnd, 12, base, data)...)
	session = append(session, verifC04Wire(msgs.NewKeepaliveMessage())...)
	add(session, nRand)
	for _, m := range []msgs.Message{
		msgs.NewDataAcknowledgementMessage(msgs.SegmentEnd, 99, 4711), msgs.NewTransferRefusalMessage(msgs.RefusalNoResources, 98),
		msgs.NewMessageRejectionMessage(msgs.RejectionUnsupported, msgs.XFER_SEGMENT),
		msgs.NewSessionTerminationMessage(msgs.TerminationReply, msgs.TerminationBusy), msgs.NewKeepaliveMessage(),
		msgs.NewContactHeader(msgs.ContactCanTls), msgs.NewSessionInitMessage(0, 0, 0, ""),
		msgs.NewSessionInitMessage(65535, 1<<64-1, 1<<64-1, "ipn:1.1"), msgs.NewSessionInitMessage(1, 1, 1, "not an endpoint"),
	} {
		w := verifC04Wire(m)
		add(w, nRand/4)
		add(append(append([]byte(nil), w...), verifC04Segment(msgs.SegmentStart|msgs.SegmentEnd, 13, base, data)...), 0)
	}
	// data that is no bundle, an empty END segment, a large honest segment
	add(verifC04Segment(msgs.SegmentStart|msgs.SegmentEnd, 14, nil, []byte("this is no bundle")), 10)
	add(verifC04Segment(msgs.SegmentStart|msgs.SegmentEnd, 15, nil, nil), 0)
	big, _ := verifC04Bundle(50000)
	var bigEnc bytes.Buffer
	_ = big.MarshalCbor(&bigEnc)
	add(verifC04Segment(msgs.SegmentStart|msgs.SegmentEnd, 16, base, bigEnc.Bytes()), 4)
	return
}

func verifC04Decoders() map[string]verifC04Dec {
	parse := func(in []byte) (v uint64, active bool, payload int, ok bool) {
		if len(in) != 13 {
			return
		}
		return binary.BigEndian.Uint64(in[:8]), in[8] != 0, int(binary.BigEndian.Uint32(in[9:])), true
	}
	return map[string]verifC04Dec{
		"tcpcl-consume": verifC04Consume,
		"mru": func(in []byte) (string, string) {
			v, active, payload, ok := parse(in)
			if !ok {
				return "error", "bad-input"
			}
			stOk, m, timedOut := verifC04Stage(v, active)
			if timedOut {
				return "timeout", "-"
			}
			if !stOk {
				return "value", fmt.Sprintf("stage=err,m=%d,send=skip,L=0,nsegs=0,max=0,min=1", m)
			}
			return "value", fmt.Sprintf("stage=ok,m=%d,%s", m, verifC04Send(m, payload))
		},
		"sendmtu": func(in []byte) (string, string) {
			v, _, payload, ok := parse(in)
			if !ok {
				return "error", "bad-input"
			}
			return "value", fmt.Sprintf("stage=ok,m=%d,%s", v, verifC04Send(v, payload))
		},
	}
}

func verifC04Gen(r *verifC04Rng, thorough bool) (cases []verifC04Case) {
	vals := append([]uint64(nil), verifC04Boundary...)
	vals = append(vals, 2, 3, 7, 100, 1000, 1<<20-1, 1<<20, 1<<20+1, 1<<40, 1<<47, 1<<48)
	for i := 0; i < 6; i++ {
		vals = append(vals, r.next()>>uint(r.intn(64)))
	}
	enc := func(v uint64, active bool, payload int) []byte {
		b := make([]byte, 13)
		binary.BigEndian.PutUint64(b, v)
		if active {
			b[8] = 1
		}
		binary.BigEndian.PutUint32(b[9:], uint32(payload))
		return b
	}
	for _, v := range vals {
		payloads := []int{0, 700}
		if v >= 100 {
			payloads = append(payloads, 50000)
		}
		if v >= 1<<20-1 && (thorough || v == 1<<20 || v == 1<<64-1) {
			payloads = append(payloads, 2500000) // longer than the segment size limit
		}
		for _, p := range payloads {
			cases = append(cases, verifC04Case{"mru", enc(v, false, p)}, verifC04Case{"sendmtu", enc(v, false, p)})
			cases = append(cases, verifC04Case{"mru", enc(v, true, p)})
		}
	}
	cases = append(cases, verifC04ConsumeCases(r, thorough)...)
	return
}

func TestVerifC04(t *testing.T) {
	log.SetLevel(log.PanicLevel)
	verifC04Main(t, "TestVerifC04", verifC04Decoders(), verifC04Gen)
}
