package bbc

// Correspondence harness for C17, BBC fragment header (attached with `go test -overlay`).
//
//   frag enc <tid>:<seq>:<SEF>:<payload hex> <hex of NewFragment(...).Bytes()> - <result of ParseFragment(hex)>
//   frag dec <hex> <result of ParseFragment(hex)>
//
// result = ok/<tid>:<SequenceNumber()>:<StartBit EndBit FailBit>:<payload hex>/<len> | err/eof | panic

import (
	"bufio"
	"encoding/hex"
	"fmt"
	"os"
	"strconv"
	"testing"
)

type c17Rng struct{ s uint64 }

func (r *c17Rng) next() uint64 {
	r.s += 0x9e3779b97f4a7c15
	z := r.s
	z = (z ^ (z >> 30)) * 0xbf58476d1ce4e5b9
	z = (z ^ (z >> 27)) * 0x94d049bb133111eb
	return z ^ (z >> 31)
}
func (r *c17Rng) intn(n int) int { return int(r.next() % uint64(n)) }
func (r *c17Rng) bytes(n int) []byte {
	b := make([]byte, n)
	for i := range b {
		b[i] = byte(r.next())
	}
	return b
}

func c17Hex(b []byte) string {
	if len(b) == 0 {
		return "-"
	}
	return hex.EncodeToString(b)
}

func c17Bit(b bool) string {
	if b {
		return "1"
	}
	return "0"
}

func c17Parse(b []byte) (res string) {
	defer func() {
		if p := recover(); p != nil {
			res = "panic"
		}
	}()
	f, err := ParseFragment(b)
	if err != nil {
		return "err/eof"
	}
	return fmt.Sprintf("ok/%d:%d:%s%s%s:%s/%d", f.TransmissionID(), f.SequenceNumber(),
		c17Bit(f.StartBit()), c17Bit(f.EndBit()), c17Bit(f.FailBit()), c17Hex(f.Payload), len(b))
}

func TestVerifC17(t *testing.T) {
	outPath := os.Getenv("VERIF_OUT")
	if outPath == "" {
		t.Skip("VERIF_OUT not set")
	}
	fl, err := os.Create(outPath)
	if err != nil {
		t.Fatal(err)
	}
	defer fl.Close()
	w := bufio.NewWriterSize(fl, 1<<20)
	defer w.Flush()
	seed, _ := strconv.ParseUint(os.Getenv("VERIF_SEED"), 10, 64)
	thorough := os.Getenv("VERIF_TIER") == "thorough"
	r := &c17Rng{s: seed*2654435761 + 1717}

	emitEnc := func(tid, seq byte, s, e, f bool, payload []byte) {
		fr := NewFragment(tid, seq, s, e, f, payload)
		b := fr.Bytes()
		fmt.Fprintf(w, "frag enc %d:%d:%s%s%s:%s %s - %s\n", tid, seq, c17Bit(s), c17Bit(e), c17Bit(f), c17Hex(payload),
			c17Hex(b), c17Parse(b))
	}
	// ALL 256 sequence-number arguments x all 8 flag combinations x transmission ids 0, 1, 255 (+ all ids once)
	tids := []byte{0, 1, 255}
	if thorough {
		tids = nil
		for i := 0; i < 256; i++ {
			tids = append(tids, byte(i))
		}
	}
	for _, tid := range tids {
		for seq := 0; seq < 256; seq++ {
			for fl := 0; fl < 8; fl++ {
				emitEnc(tid, byte(seq), fl&4 != 0, fl&2 != 0, fl&1 != 0, r.bytes(r.intn(4)))
			}
		}
	}
	for tid := 0; tid < 256; tid++ {
		emitEnc(byte(tid), byte(r.intn(16)), r.intn(2) == 0, r.intn(2) == 0, r.intn(2) == 0, r.bytes(r.intn(6)))
	}
	for _, l := range []int{0, 1, 23, 24, 255, 256, 65535} {
		emitEnc(byte(r.next()), byte(r.intn(16)), true, false, false, r.bytes(l))
	}
	// the failure report of a fragment keeps id and number, clears start/end, sets fail, drops the payload
	for seq := 0; seq < 32; seq++ {
		fr := NewFragment(9, byte(seq), true, true, false, []byte{1, 2, 3}).ReportFailure()
		b := fr.Bytes()
		fmt.Fprintf(w, "frag enc 9:%d:001:- %s - %s\n", seq, c17Hex(b), c17Parse(b))
	}
	// decoder: all 256 identifier bytes, short inputs
	for id := 0; id < 256; id++ {
		b := append([]byte{byte(r.next()), byte(id)}, r.bytes(r.intn(5))...)
		fmt.Fprintf(w, "frag dec %s %s\n", c17Hex(b), c17Parse(b))
	}
	for _, b := range [][]byte{{}, {0}, {255}, {1, 2}} {
		fmt.Fprintf(w, "frag dec %s %s\n", c17Hex(b), c17Parse(b))
	}
	// nextSequenceNumber / nextTransmissionId for all 256 values
	for v := 0; v < 256; v++ {
		fmt.Fprintf(w, "fragnext %d %d %d\n", v, nextSequenceNumber(byte(v)), nextTransmissionId(byte(v)))
	}
}
