package bbc

// C04 harness for the Bundle Broadcasting Connector: raw modem frames → ParseFragment →
// Connector.handleIncomingFragment (the real reassembly, xz decompression and bundle decoder).
//
//   bbc-fragments     input = frames, each prefixed by its length (1 byte)
//   bbc-transmission  input = the (xz) payload of one transmission, cut into fragments by the real sender
//   bbc-xz-dictsize   like bbc-transmission; inputs are well-formed xz streams whose block header declares a
//                     dictionary size the sender never uses (the decompressor allocates it up front)

import (
	"bytes"
	"encoding/binary"
	"fmt"
	"hash/crc32"
	"testing"

	log "github.com/sirupsen/logrus"
	"github.com/ulikunitz/xz"

	"github.com/dtn7/dtn7-go/pkg/bpv7"
)

type verifC04NullModem struct{}

func (verifC04NullModem) Mtu() int                   { return 64 }
func (verifC04NullModem) Send(Fragment) error        { return nil }
func (verifC04NullModem) Receive() (Fragment, error) { select {} }
func (verifC04NullModem) Close() error               { return nil }
func (verifC04NullModem) String() string             { return "null" }

// verifC04Feed hands frames to a fresh Connector; returns the number of bundles it reported.
func verifC04Feed(frames [][]byte) (bundles int, parsed int, ends int) {
	c := NewConnector(verifC04NullModem{}, false)
	stop := make(chan struct{})
	drained := make(chan struct{})
	go func() {
		defer close(drained)
		for {
			select {
			case <-c.reportChan:
				bundles++
			case <-c.fragmentOut:
			case <-c.failTransmission:
			case <-stop:
				return
			}
		}
	}()
	for _, fr := range frames {
		f, err := ParseFragment(fr)
		if err != nil {
			continue
		}
		parsed++
		if f.EndBit() && !f.FailBit() {
			ends++ // at most this many transmissions are completed, i.e. decompressors created
		}
		_ = f.String()
		_ = c.handleIncomingFragment(f)
	}
	close(stop)
	<-drained
	// what is still buffered
	for {
		select {
		case <-c.reportChan:
			bundles++
			continue
		default:
		}
		break
	}
	return
}

func verifC04Cut(payload []byte, mtu int) (frames [][]byte) {
	t, err := newPlainOutgoingTransmission(0x42, payload, mtu)
	if err != nil {
		return nil
	}
	for i := 0; i < 100000; i++ {
		f, fin, err := t.WriteFragment()
		if err != nil {
			break
		}
		frames = append(frames, f.Bytes())
		if fin {
			break
		}
	}
	return
}

func verifC04Decoders() map[string]verifC04Dec {
	transmission := func(in []byte) (string, string) {
		n, _, ends := verifC04Feed(verifC04Cut(in, 64))
		if n > 0 {
			return "value", fmt.Sprintf("bundles=%d,ends=%d", n, ends)
		}
		return "error", fmt.Sprintf("ends=%d", ends)
	}
	return map[string]verifC04Dec{
		"bbc-fragments": func(in []byte) (string, string) {
			var frames [][]byte
			for len(in) > 0 {
				l := int(in[0])
				in = in[1:]
				if l > len(in) {
					l = len(in)
				}
				frames = append(frames, in[:l])
				in = in[l:]
			}
			n, parsed, ends := verifC04Feed(frames)
			if n > 0 {
				return "value", fmt.Sprintf("bundles=%d,parsed=%d,ends=%d", n, parsed, ends)
			}
			return "error", fmt.Sprintf("ends=%d", ends)
		},
		"bbc-transmission": transmission,
		"bbc-xz-dictsize":  transmission,
	}
}

func verifC04BundleBytes(payload int) []byte {
	b, err := bpv7.Builder().CRC(bpv7.CRC32).
		Source("dtn://src/").Destination("dtn://dst/").
		CreationTimestampEpoch().Lifetime("10m").
		BundleAgeBlock(uint64(5)).
		PayloadBlock(bytes.Repeat([]byte{0x42}, payload)).
		Build()
	if err != nil {
		panic(err)
	}
	var buf bytes.Buffer
	if err := b.MarshalCbor(&buf); err != nil {
		panic(err)
	}
	return buf.Bytes()
}

func verifC04Xz(data []byte) []byte {
	var buf bytes.Buffer
	w, err := xz.NewWriter(&buf)
	if err != nil {
		panic(err)
	}
	_, _ = w.Write(data)
	_ = w.Close()
	return buf.Bytes()
}

// verifC04XzSmall compresses with a small encoder dictionary (the generator would otherwise spend its
// time in the encoder's 8 MiB tables); the decoder's side is not affected.
func verifC04XzSmall(data []byte) []byte {
	var buf bytes.Buffer
	w, err := xz.WriterConfig{DictCap: 1 << 16}.NewWriter(&buf)
	if err != nil {
		panic(err)
	}
	_, _ = w.Write(data)
	_ = w.Close()
	return buf.Bytes()
}

// verifC04DictSize rewrites the LZMA2 dictionary size byte of the first block header (and its CRC32).
func verifC04DictSize(stream []byte, d byte) []byte {
	s := append([]byte(nil), stream...)
	hs := (int(s[12]) + 1) * 4
	hdr := s[12 : 12+hs]
	if hdr[2] != 0x21 || hdr[3] != 0x01 {
		panic("unexpected xz block header")
	}
	hdr[4] = d
	binary.LittleEndian.PutUint32(hdr[hs-4:], crc32.ChecksumIEEE(hdr[:hs-4]))
	return s
}

func verifC04Frames(frames [][]byte) []byte {
	var out []byte
	for _, f := range frames {
		out = append(out, byte(len(f)))
		out = append(out, f...)
	}
	return out
}

func verifC04Gen(r *verifC04Rng, thorough bool) (cases []verifC04Case) {
	nRand := 60
	if thorough {
		nRand = 1500
	}
	bundle := verifC04BundleBytes(30)
	stream := verifC04Xz(bundle)
	cases = append(cases, verifC04Case{"bbc-transmission", stream})
	cases = append(cases, verifC04Truncations("bbc-transmission", stream)...)
	cases = append(cases, verifC04Random("bbc-transmission", stream, nRand, r)...)
	// boundary values in the bundle behind the compression
	all := verifC04CborBoundaries("bbc-transmission", func() []byte {
		b, err := bpv7.Builder().
			Source("dtn://src/").Destination("dtn://dst/").
			CreationTimestampEpoch().Lifetime("10m").
			BundleAgeBlock(uint64(5)).
			PayloadBlock([]byte("xyz")).
			Build()
		if err != nil {
			panic(err)
		}
		var buf bytes.Buffer
		_ = b.MarshalCbor(&buf)
		return buf.Bytes()
	}())
	step := 7
	if thorough {
		step = 1
	}
	for i := 0; i < len(all); i += step {
		cases = append(cases, verifC04Case{"bbc-transmission", verifC04XzSmall(all[i].in)})
	}
	// an uncompressed bundle, an empty transmission, a highly compressible bundle (honest 60 KiB payload)
	cases = append(cases, verifC04Case{"bbc-transmission", bundle}, verifC04Case{"bbc-transmission", nil},
		verifC04Case{"bbc-transmission", verifC04Xz(verifC04BundleBytes(60000))})

	// raw frames: the fragments of a transmission, then disturbed
	frames := verifC04Cut(stream, 32)
	seq := verifC04Frames(frames)
	cases = append(cases, verifC04Case{"bbc-fragments", seq})
	cases = append(cases, verifC04Truncations("bbc-fragments", seq)...)
	cases = append(cases, verifC04Random("bbc-fragments", seq, nRand*2, r)...)
	// every identifier byte on a start fragment, alone and followed by the rest
	for id := 0; id < 256; id++ {
		if seq := id >> 3; !thorough && !(seq <= 2 || seq == 15 || seq == 16 || seq == 31) {
			continue
		}
		f0 := append([]byte{0x42, byte(id)}, frames[0][2:]...)
		cases = append(cases, verifC04Case{"bbc-fragments", verifC04Frames([][]byte{f0})})
		cases = append(cases, verifC04Case{"bbc-fragments", verifC04Frames(append([][]byte{f0}, frames[1:]...))})
	}
	// reordered, duplicated, dropped fragments
	for i := range frames {
		var dup, drop [][]byte
		for j, f := range frames {
			if j != i {
				drop = append(drop, f)
			}
			dup = append(dup, f)
			if j == i {
				dup = append(dup, f)
			}
		}
		cases = append(cases, verifC04Case{"bbc-fragments", verifC04Frames(dup)}, verifC04Case{"bbc-fragments", verifC04Frames(drop)})
	}
	cases = append(cases, verifC04Case{"bbc-fragments", []byte{0}}, verifC04Case{"bbc-fragments", []byte{1, 0x42}},
		verifC04Case{"bbc-fragments", []byte{2, 0x42, 0x06}}, verifC04Case{"bbc-fragments", []byte{2, 0x42, 0x07}})

	// dictionary sizes: 0..40 are valid encodings (40 = 4 GiB - 1); the sender's own streams use 22 (8 MiB)
	for d := 0; d <= 40; d++ {
		dec := "bbc-xz-dictsize"
		if d <= 22 {
			dec = "bbc-transmission" // not larger than what the library allocates for every stream anyway
		}
		cases = append(cases, verifC04Case{dec, verifC04DictSize(stream, byte(d))})
	}
	return
}

func TestVerifC04(t *testing.T) {
	log.SetLevel(log.PanicLevel)
	verifC04Main(t, "TestVerifC04", verifC04Decoders(), verifC04Gen)
}
