package bbc

// Correspondence harness for C12, BBC part (attached with `go test -overlay`; never part of /repo).
// Line formats: /verif/lean/Driver/C12.lean.
//
//   bbc train <tid> <mtu> <payload hex> <fragment hex,…|-> <err 0|1>
//        newPlainOutgoingTransmission + WriteFragment until finished
//   bbc send <tid> <mtu> <fragment hex,…> <ok|err> <decodes 0|1>
//        a started Connector with a scripted modem: Send(bundle); the fragments the modem saw
//   bbc rx <label> <k=payload hex;…> <received fragment hex,…> <outputs per step ;-separated> <open ids>
//        a fresh Connector, handleIncomingFragment called for each received fragment, channels drained after each call
//        outputs: D<k> bundle k delivered (Dx: a bundle equal to none of the originals), F<tid>.<seq> failure fragment
//        broadcast, S<tid> failure signalled to the sender side, '.' nothing

import (
	"bufio"
	"bytes"
	"fmt"
	"io"
	"os"
	"sort"
	"strconv"
	"strings"
	"sync"
	"testing"
	"time"

	log "github.com/sirupsen/logrus"
	"github.com/ulikunitz/xz"

	"github.com/dtn7/dtn7-go/pkg/bpv7"
	"github.com/dtn7/dtn7-go/pkg/cla"
)

type c12Modem struct {
	mtu    int
	mu     sync.Mutex
	sent   []Fragment
	in     chan Fragment
	closed chan struct{}
	once   sync.Once
}

func newC12Modem(mtu int) *c12Modem {
	return &c12Modem{mtu: mtu, in: make(chan Fragment, 1024), closed: make(chan struct{})}
}
func (m *c12Modem) Mtu() int { return m.mtu }
func (m *c12Modem) Send(f Fragment) error {
	m.mu.Lock()
	m.sent = append(m.sent, f)
	m.mu.Unlock()
	return nil
}
func (m *c12Modem) Receive() (Fragment, error) {
	select {
	case f := <-m.in:
		return f, nil
	case <-m.closed:
		return Fragment{}, io.EOF
	}
}
func (m *c12Modem) Close() error   { m.once.Do(func() { close(m.closed) }); return nil }
func (m *c12Modem) String() string { return "c12modem" }

func c12Frags(fs []Fragment) string {
	if len(fs) == 0 {
		return "-"
	}
	var parts []string
	for _, f := range fs {
		parts = append(parts, c17Hex(f.Bytes()))
	}
	return strings.Join(parts, ",")
}

func c12Bundle(r *c17Rng, payloadLen int) bpv7.Bundle {
	b, err := bpv7.Builder().
		CRC(bpv7.CRC32).
		Source("dtn://src/").
		Destination("dtn://dst/").
		CreationTimestampEpoch().
		Lifetime("60s").
		BundleAgeBlock(0).
		PayloadBlock(r.bytes(payloadLen)).
		Build()
	if err != nil {
		panic(err)
	}
	return b
}

func c12Enc(b *bpv7.Bundle) []byte {
	var buf bytes.Buffer
	_ = b.MarshalCbor(&buf)
	return buf.Bytes()
}

// the whole train of a plain payload
func c12Train(tid byte, payload []byte, mtu int) (fs []Fragment, failed bool) {
	t, err := newPlainOutgoingTransmission(tid, payload, mtu)
	if err != nil {
		return nil, true
	}
	for i := 0; i < len(payload)+3; i++ {
		f, fin, err := t.WriteFragment()
		if err != nil {
			return fs, true
		}
		// own copy with no spare capacity: the receiver appends to the first fragment's payload slice in place
		// (IncomingTransmission.Payload = f.Payload), which must not reach into the harness's buffers
		pl := make([]byte, len(f.Payload))
		copy(pl, f.Payload)
		f.Payload = pl
		fs = append(fs, f)
		if fin {
			return fs, false
		}
	}
	return fs, true
}

type c12Orig struct {
	enc     []byte // serialised bundle
	payload []byte // its xz form = transmission payload
}

func c12Origs(os []c12Orig) string {
	var parts []string
	for k, o := range os {
		parts = append(parts, fmt.Sprintf("%d=%s", k, c17Hex(o.payload)))
	}
	return strings.Join(parts, ";")
}

// c12Rx feeds the fragments to a fresh Connector and reports what came out after each one.
func c12Rx(origs []c12Orig, received []Fragment) (outs string, open string) {
	c := NewConnector(newC12Modem(255), false)
	var steps []string
	for _, f := range received {
		func() {
			defer func() {
				if p := recover(); p != nil {
					steps = append(steps, "panic")
				}
			}()
			_ = c.handleIncomingFragment(f)
		}()
		var o []string
		for more := true; more; {
			select {
			case cs := <-c.reportChan:
				if cs.MessageType == cla.ReceivedBundle {
					e := c12Enc(cs.Message.(cla.ConvergenceReceivedBundle).Bundle)
					k := "x"
					for i, og := range origs {
						if bytes.Equal(og.enc, e) {
							k = strconv.Itoa(i)
							break
						}
					}
					o = append(o, "D"+k)
				}
			case ff := <-c.fragmentOut:
				if ff.FailBit() && !ff.StartBit() && !ff.EndBit() && len(ff.Payload) == 0 {
					o = append(o, fmt.Sprintf("F%d.%d", ff.TransmissionID(), ff.SequenceNumber()))
				} else {
					o = append(o, "F?"+c17Hex(ff.Bytes()))
				}
			case tid := <-c.failTransmission:
				o = append(o, fmt.Sprintf("S%d", tid))
			default:
				more = false
			}
		}
		if len(o) == 0 {
			steps = append(steps, ".")
		} else {
			steps = append(steps, strings.Join(o, "+"))
		}
	}
	var ids []int
	for k := range c.transmissions {
		ids = append(ids, int(k))
	}
	sort.Ints(ids)
	var idS []string
	for _, i := range ids {
		idS = append(idS, strconv.Itoa(i))
	}
	if len(steps) == 0 {
		steps = []string{"-"}
	}
	if len(idS) == 0 {
		idS = []string{"-"}
	}
	return strings.Join(steps, ";"), strings.Join(idS, ",")
}

func TestVerifC12(t *testing.T) {
	outPath := os.Getenv("VERIF_OUT")
	if outPath == "" {
		t.Skip("VERIF_OUT not set")
	}
	fl, err := os.Create(outPath)
	if err != nil {
		t.Fatal(err)
	}
	defer fl.Close()
	w := bufio.NewWriterSize(fl, 1<<20)
	defer w.Flush()
	log.SetLevel(log.PanicLevel)
	seed, _ := strconv.ParseUint(os.Getenv("VERIF_SEED"), 10, 64)
	thorough := os.Getenv("VERIF_TIER") == "thorough"
	r := &c17Rng{s: seed*2654435761 + 1212}

	// ---- (1) sender: payload sizes 0..200 x modem MTUs 3..40
	mtus := []int{3, 4, 5, 7, 10, 16, 17, 18, 19, 33, 34, 40}
	if thorough {
		mtus = nil
		for m := 3; m <= 40; m++ {
			mtus = append(mtus, m)
		}
	}
	for l := 0; l <= 200; l++ {
		if !thorough && l > 70 && l%7 != 0 && l%16 > 1 {
			continue
		}
		payload := r.bytes(l)
		for _, mtu := range mtus {
			tid := byte(r.next())
			fs, failed := c12Train(tid, payload, mtu)
			e := 0
			if failed {
				e = 1
			}
			fmt.Fprintf(w, "bbc train %d %d %s %s %d\n", tid, mtu, c17Hex(payload), c12Frags(fs), e)
		}
	}
	for _, mtu := range []int{41, 64, 100, 255, 256, 1000} {
		for _, l := range []int{1, mtu - 3, mtu - 2, mtu - 1, mtu, 2*(mtu-2) - 1, 2 * (mtu - 2), 2*(mtu-2) + 1, 17 * (mtu - 2), 33*(mtu-2) + 1} {
			payload := r.bytes(l)
			fs, failed := c12Train(9, payload, mtu)
			e := 0
			if failed {
				e = 1
			}
			fmt.Fprintf(w, "bbc train 9 %d %s %s %d\n", mtu, c17Hex(payload), c12Frags(fs), e)
		}
	}

	// real bundles: serialised + compressed form
	mkOrig := func(payloadLen int, tid byte, mtu int) (c12Orig, []Fragment, bpv7.Bundle) {
		b := c12Bundle(r, payloadLen)
		ot, err := NewOutgoingTransmission(tid, b, mtu)
		if err != nil {
			panic(err)
		}
		o := c12Orig{enc: c12Enc(&b), payload: append([]byte{}, ot.Payload...)}
		fs, failed := c12Train(tid, o.payload, mtu)
		if failed {
			panic("train failed")
		}
		return o, fs, b
	}

	// ---- (2) Connector.Send through a started connector and a scripted modem
	for _, mtu := range []int{3, 9, 20, 40, 100, 255} {
		m := newC12Modem(mtu)
		c := NewConnector(m, false)
		_, _ = c.Start()
		for rep := 0; rep < 2; rep++ {
			b := c12Bundle(r, r.intn(60))
			tid := c.tid
			m.mu.Lock()
			m.sent = nil
			m.mu.Unlock()
			res := "ok"
			if err := c.Send(b); err != nil {
				res = "err"
			}
			// wait for the END fragment to reach the modem
			deadline := time.Now().Add(10 * time.Second)
			var seen []Fragment
			for time.Now().Before(deadline) {
				m.mu.Lock()
				seen = append([]Fragment{}, m.sent...)
				m.mu.Unlock()
				if len(seen) > 0 && seen[len(seen)-1].EndBit() {
					break
				}
				time.Sleep(time.Millisecond)
			}
			var pl []byte
			for _, f := range seen {
				pl = append(pl, f.Payload...)
			}
			dec := 0
			if xr, err := xz.NewReader(bytes.NewReader(pl)); err == nil {
				var b2 bpv7.Bundle
				if err := b2.UnmarshalCbor(xr); err == nil && bytes.Equal(c12Enc(&b2), c12Enc(&b)) {
					dec = 1
				}
			}
			fmt.Fprintf(w, "bbc send %d %d %s %s %d\n", tid, mtu, c12Frags(seen), res, dec)
		}
		_ = c.Close()
	}

	// ---- (3) receiver: intact trains, then EVERY single drop / duplication / adjacent swap of each train
	rxMtus := []int{300, 130, 40, 18, 9}
	if thorough {
		rxMtus = append(rxMtus, 255, 100, 60, 25, 13, 7)
	}
	for _, mtu := range rxMtus {
		tid := byte(r.next())
		o, fs, _ := mkOrig(r.intn(30), tid, mtu)
		origs := []c12Orig{o}
		n := len(fs)
		emit := func(label string, rec []Fragment) {
			outs, open := c12Rx(origs, rec)
			fmt.Fprintf(w, "bbc rx %s %s %s %s %s\n", label, c12Origs(origs), c12Frags(rec), outs, open)
		}
		emit(fmt.Sprintf("none:0:%d", n), fs)
		for d := 0; d < n; d++ {
			rec := append(append([]Fragment{}, fs[:d]...), fs[d+1:]...)
			emit(fmt.Sprintf("drop:%d:%d", d, n), rec)
			rec = append(append(append([]Fragment{}, fs[:d+1]...), fs[d]), fs[d+1:]...)
			emit(fmt.Sprintf("dup:%d:%d", d, n), rec)
			if d+1 < n {
				rec = append([]Fragment{}, fs...)
				rec[d], rec[d+1] = rec[d+1], rec[d]
				emit(fmt.Sprintf("swap:%d:%d", d, n), rec)
			}
		}
		// random multi-fault patterns (drops, duplications, local reorderings; also 16 and 32 consecutive drops)
		nMulti := 18
		if thorough {
			nMulti = 200
		}
		for k := 0; k < nMulti; k++ {
			var rec []Fragment
			for i := 0; i < n; i++ {
				switch r.intn(10) {
				case 0: // drop
				case 1:
					rec = append(rec, fs[i], fs[i])
				case 2:
					if len(rec) > 0 {
						rec = append(rec[:len(rec)-1], fs[i], rec[len(rec)-1])
					} else {
						rec = append(rec, fs[i])
					}
				default:
					rec = append(rec, fs[i])
				}
			}
			if k%5 == 4 && n > 17 {
				s := 1 + r.intn(n-17)
				rec = append(append([]Fragment{}, fs[:s]...), fs[s+16:]...) // exactly 16 in a row missing
			}
			if k%5 == 3 && n > 20 {
				rec = append(append([]Fragment{}, fs[:18]...), fs[2:]...) // replay from 16 fragments earlier
			}
			if k%5 == 2 && n > 17 {
				// the START fragment again exactly when its number is the expected one (16 later)
				rec = append(append([]Fragment{}, fs[:16]...), fs...)
			}
			if k%5 == 1 && n > 18 {
				// the START fragment INSTEAD of the fragment sixteen later (whose number it shares), the rest as sent
				rec = append(append(append([]Fragment{}, fs[:16]...), fs[0]), fs[17:]...)
			}
			if k%9 == 8 {
				// the whole train twice / a failure fragment of the peer in between
				rec = append(append([]Fragment{}, fs...), fs...)
				rec = append(rec, fs[0].ReportFailure())
			}
			emit("multi:0:"+strconv.Itoa(n), rec)
		}
	}

	// ---- (4) three concurrent incoming transmissions, randomly interleaved, faults in one of them
	nConc := 12
	if thorough {
		nConc = 300
	}
	for k := 0; k < nConc; k++ {
		mtu := []int{20, 40, 70}[r.intn(3)]
		base := byte(r.next())
		var origs []c12Orig
		var trains [][]Fragment
		for j := 0; j < 3; j++ {
			o, fs, _ := mkOrig(r.intn(20), base+byte(j*7), mtu)
			origs = append(origs, o)
			trains = append(trains, fs)
		}
		label := "conc:0:0"
		if k%3 == 1 {
			// one random single fault in train 0 (never its END fragment / a one-fragment train: D29)
			fs := trains[0]
			if len(fs) >= 2 {
				d := r.intn(len(fs) - 1)
				switch r.intn(3) {
				case 0:
					trains[0] = append(append([]Fragment{}, fs[:d]...), fs[d+1:]...)
				case 1:
					trains[0] = append(append(append([]Fragment{}, fs[:d+1]...), fs[d]), fs[d+1:]...)
				default:
					t2 := append([]Fragment{}, fs...)
					t2[d], t2[d+1] = t2[d+1], t2[d]
					trains[0] = t2
				}
				label = "concfault:0:0"
			}
		}
		var rec []Fragment
		idx := []int{0, 0, 0}
		for {
			var cand []int
			for j := 0; j < 3; j++ {
				if idx[j] < len(trains[j]) {
					cand = append(cand, j)
				}
			}
			if len(cand) == 0 {
				break
			}
			j := cand[r.intn(len(cand))]
			rec = append(rec, trains[j][idx[j]])
			idx[j]++
		}
		outs, open := c12Rx(origs, rec)
		fmt.Fprintf(w, "bbc rx %s %s %s %s %s\n", label, c12Origs(origs), c12Frags(rec), outs, open)
	}

	// ---- (5) end to end: two started connectors on a scripted hub, no faults
	{
		m1, m2 := newC12Modem(40), newC12Modem(40)
		c1, c2 := NewConnector(m1, false), NewConnector(m2, false)
		_, _ = c1.Start()
		_, _ = c2.Start()
		stop := make(chan struct{})
		go func() { // hub: whatever m1 sent is received by m2 (and vice versa)
			i1, i2 := 0, 0
			for {
				select {
				case <-stop:
					return
				default:
				}
				m1.mu.Lock()
				for ; i1 < len(m1.sent); i1++ {
					m2.in <- m1.sent[i1]
				}
				m1.mu.Unlock()
				m2.mu.Lock()
				for ; i2 < len(m2.sent); i2++ {
					m1.in <- m2.sent[i2]
				}
				m2.mu.Unlock()
				time.Sleep(200 * time.Microsecond)
			}
		}()
		for rep := 0; rep < 4; rep++ {
			b := c12Bundle(r, r.intn(50))
			res := "ok"
			if err := c1.Send(b); err != nil {
				res = "err"
			}
			got := "none"
			select {
			case cs := <-c2.Channel():
				if cs.MessageType == cla.ReceivedBundle {
					if bytes.Equal(c12Enc(cs.Message.(cla.ConvergenceReceivedBundle).Bundle), c12Enc(&b)) {
						got = "same"
					} else {
						got = "diff"
					}
				}
			case <-time.After(10 * time.Second):
			}
			fmt.Fprintf(w, "bbc e2e %s %s\n", res, got)
		}
		close(stop)
		_ = c1.Close()
		_ = c2.Close()
	}
}
