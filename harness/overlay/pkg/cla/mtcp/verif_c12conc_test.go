package mtcp

// C12, MTCP: several goroutines send over ONE client at the same time (routing.Core.forward starts one goroutine
// per bundle and peer; a CLA is shared by all of them), with frames larger than any buffer on the way. Uses
// the exported API only, so that it still builds when the client's internals change.
// Line format: /verif/lean/Driver/C12.lean (`mtcp concsend`).

import (
	"bytes"
	"crypto/sha1"
	"encoding/hex"
	"fmt"
	"os"
	"strconv"
	"strings"
	"sync"
	"testing"
	"time"

	log "github.com/sirupsen/logrus"

	"github.com/dtn7/dtn7-go/pkg/bpv7"
	"github.com/dtn7/dtn7-go/pkg/cla"
)

func cc12Digest(b *bpv7.Bundle) string {
	var buf bytes.Buffer
	_ = b.MarshalCbor(&buf)
	h := sha1.Sum(buf.Bytes())
	return strconv.Itoa(buf.Len()) + ":" + hex.EncodeToString(h[:6])
}

func TestVerifC12Conc(t *testing.T) {
	outPath := os.Getenv("VERIF_OUT")
	if outPath == "" {
		t.Skip("VERIF_OUT not set")
	}
	if os.Getenv("VERIF_REPLAY") != "" {
		return
	}
	fl, err := os.Create(outPath)
	if err != nil {
		t.Fatal(err)
	}
	defer fl.Close()
	log.SetLevel(log.PanicLevel)
	seed, _ := strconv.ParseUint(os.Getenv("VERIF_SEED"), 10, 64)
	rounds := 4
	if os.Getenv("VERIF_TIER") == "thorough" {
		rounds = 16
	}
	var serv *MTCPServer
	var addr string
	for try := 0; ; try++ {
		addr = fmt.Sprintf("127.0.0.1:%d", 20000+int((seed*7919+uint64(try)*131+uint64(os.Getpid()))%30000))
		serv = NewMTCPServer(addr, bpv7.MustNewEndpointID("dtn://mtcpcla/"), false)
		if err, _ := serv.Start(); err == nil {
			break
		} else if try > 30 {
			t.Fatal(err)
		}
	}
	recv := make(chan string, 4096)
	go func() {
		for cs := range serv.Channel() {
			if cs.MessageType == cla.ReceivedBundle {
				recv <- cc12Digest(cs.Message.(cla.ConvergenceReceivedBundle).Bundle)
			}
		}
	}()
	for round := 0; round < rounds; round++ {
		client := NewAnonymousMTCPClient(addr, false)
		if err, _ := client.Start(); err != nil {
			t.Fatal(err)
		}
		go func() {
			for range client.Channel() {
			}
		}()
		senders, per := 4+round%3, 6
		// payload sizes around and above the usual buffer sizes (4 KiB bufio, 64 KiB socket buffers)
		sizes := []int{100, 5000, 9000, 70000, 20, 4090, 4100, 33000}
		bundles := make([][]bpv7.Bundle, senders)
		var sent []string
		for g := 0; g < senders; g++ {
			for i := 0; i < per; i++ {
				pl := bytes.Repeat([]byte{byte(17*g + i + 1)}, sizes[(g+i+round)%len(sizes)])
				b, err := bpv7.Builder().CRC(bpv7.CRC32).Source("dtn://src/").Destination("dtn://dst/").
					CreationTimestampEpoch().Lifetime("60s").BundleAgeBlock(uint64(g*100+i)).PayloadBlock(pl).Build()
				if err != nil {
					t.Fatal(err)
				}
				bundles[g] = append(bundles[g], b)
				sent = append(sent, cc12Digest(&b))
			}
		}
		results := make([]string, senders*per)
		var wg sync.WaitGroup
		start := make(chan struct{})
		for g := 0; g < senders; g++ {
			wg.Add(1)
			go func(g int) {
				defer wg.Done()
				<-start
				for i, b := range bundles[g] {
					if err := client.Send(b); err != nil {
						results[g*per+i] = "err"
					} else {
						results[g*per+i] = "ok"
					}
				}
			}(g)
		}
		close(start)
		wg.Wait()
		var got []string
		timeout := time.After(15 * time.Second)
	collect:
		for len(got) < len(sent) {
			select {
			case d := <-recv:
				got = append(got, d)
			case <-timeout:
				break collect
			}
		}
		// anything the server reports in addition (garbage parsed as a bundle)?
		select {
		case d := <-recv:
			got = append(got, d)
		case <-time.After(100 * time.Millisecond):
		}
		_ = client.Close()
		j := func(l []string) string {
			if len(l) == 0 {
				return "-"
			}
			return strings.Join(l, ",")
		}
		fmt.Fprintf(fl, "mtcp concsend %d %s %s %s\n", senders, j(sent), j(got), j(results))
	}
	_ = serv.Close()
}
