package mtcp

// Correspondence harness for C12, MTCP part (attached with `go test -overlay`; never part of /repo).
// Line formats: /verif/lean/Driver/C12.lean.

import (
	"bufio"
	"bytes"
	"encoding/hex"
	"fmt"
	"net"
	"os"
	"strconv"
	"strings"
	"sync"
	"testing"
	"time"

	log "github.com/sirupsen/logrus"

	"github.com/dtn7/dtn7-go/pkg/bpv7"
	"github.com/dtn7/dtn7-go/pkg/cla"
)

type c12Rng struct{ s uint64 }

func (r *c12Rng) next() uint64 {
	r.s += 0x9e3779b97f4a7c15
	z := r.s
	z = (z ^ (z >> 30)) * 0xbf58476d1ce4e5b9
	z = (z ^ (z >> 27)) * 0x94d049bb133111eb
	return z ^ (z >> 31)
}
func (r *c12Rng) intn(n int) int { return int(r.next() % uint64(n)) }
func (r *c12Rng) bytes(n int) []byte {
	b := make([]byte, n)
	for i := range b {
		b[i] = byte(r.next())
	}
	return b
}

func c12Hex(b []byte) string {
	if len(b) == 0 {
		return "-"
	}
	return hex.EncodeToString(b)
}

func c12HexList(bs [][]byte) string {
	if len(bs) == 0 {
		return "-"
	}
	var parts []string
	for _, b := range bs {
		parts = append(parts, c12Hex(b))
	}
	return strings.Join(parts, ",")
}

func c12Bundle(r *c12Rng, payloadLen int) (bpv7.Bundle, []byte) {
	b, err := bpv7.Builder().
		CRC(bpv7.CRC32).
		Source("dtn://src/").
		Destination("dtn://dst/").
		CreationTimestampEpoch().
		Lifetime("60s").
		BundleAgeBlock(0).
		PayloadBlock(r.bytes(payloadLen)).
		Build()
	if err != nil {
		panic(err)
	}
	var buf bytes.Buffer
	if err := b.MarshalCbor(&buf); err != nil {
		panic(err)
	}
	return b, buf.Bytes()
}

func c12Enc(b *bpv7.Bundle) []byte {
	var buf bytes.Buffer
	_ = b.MarshalCbor(&buf)
	return buf.Bytes()
}

// head of a CBOR byte string of length n, shortest form (what the client writes)
func c12Head(n int) []byte {
	switch {
	case n < 24:
		return []byte{0x40 | byte(n)}
	case n < 1<<8:
		return []byte{0x58, byte(n)}
	case n < 1<<16:
		return []byte{0x59, byte(n >> 8), byte(n)}
	default:
		return []byte{0x5a, byte(n >> 24), byte(n >> 16), byte(n >> 8), byte(n)}
	}
}

// tapConn records everything written to the connection.
type c12Tap struct {
	net.Conn
	mu  sync.Mutex
	buf bytes.Buffer
}

func (t *c12Tap) Write(b []byte) (int, error) {
	n, err := t.Conn.Write(b)
	t.mu.Lock()
	t.buf.Write(b[:n])
	t.mu.Unlock()
	return n, err
}

func c12FreePort() int {
	l, err := net.Listen("tcp", "127.0.0.1:0")
	if err != nil {
		panic(err)
	}
	defer l.Close()
	return l.Addr().(*net.TCPAddr).Port
}

// c12Serve feeds `stream` (in irregular chunks) over a real loopback TCP connection into the real
// handleSender and returns the encodings of the bundles it reported. Synchronous: returns when handleSender returned.
func c12Serve(r *c12Rng, stream []byte) [][]byte {
	serv := NewMTCPServer("127.0.0.1:0", bpv7.MustNewEndpointID("dtn://mtcpcla/"), false)
	ln, err := net.Listen("tcp", "127.0.0.1:0")
	if err != nil {
		panic(err)
	}
	defer ln.Close()
	go func() {
		c, err := net.Dial("tcp", ln.Addr().String())
		if err != nil {
			return
		}
		for i := 0; i < len(stream); {
			n := 1 + r.intn(7)
			if r.intn(4) == 0 {
				n = 1 + r.intn(200)
			}
			if i+n > len(stream) {
				n = len(stream) - i
			}
			_, _ = c.Write(stream[i : i+n])
			i += n
		}
		_ = c.Close()
	}()
	conn, err := ln.Accept()
	if err != nil {
		panic(err)
	}
	var got [][]byte
	done := make(chan struct{})
	fin := make(chan struct{})
	go func() {
		defer close(fin)
		for {
			select {
			case cs := <-serv.Channel():
				if cs.MessageType == cla.ReceivedBundle {
					got = append(got, c12Enc(cs.Message.(cla.ConvergenceReceivedBundle).Bundle))
				}
			case <-done:
				return
			}
		}
	}()
	serv.handleSender(conn)
	close(done)
	<-fin
	return got
}

func TestVerifC12(t *testing.T) {
	outPath := os.Getenv("VERIF_OUT")
	if outPath == "" {
		t.Skip("VERIF_OUT not set")
	}
	fl, err := os.Create(outPath)
	if err != nil {
		t.Fatal(err)
	}
	defer fl.Close()
	w := bufio.NewWriterSize(fl, 1<<20)
	defer w.Flush()
	log.SetLevel(log.PanicLevel)
	seed, _ := strconv.ParseUint(os.Getenv("VERIF_SEED"), 10, 64)
	thorough := os.Getenv("VERIF_TIER") == "thorough"
	r := &c12Rng{s: seed*2654435761 + 12}
	scale := 1
	if thorough {
		scale = 6
	}

	// ---- (1) real MTCPServer + real MTCPClient over loopback; the client's connection is tapped; keep-alives injected
	var port int
	var serv *MTCPServer
	for try := 0; ; try++ { // the free port is found by listening and closing: another process may grab it in between
		port = c12FreePort()
		serv = NewMTCPServer(fmt.Sprintf("127.0.0.1:%d", port), bpv7.MustNewEndpointID("dtn://mtcpcla/"), false)
		if err, _ := serv.Start(); err == nil {
			break
		} else if try > 20 {
			t.Fatal(err)
		}
	}
	recv := make(chan []byte, 1024)
	servDone := make(chan struct{})
	go func() {
		defer close(servDone)
		for cs := range serv.Channel() {
			if cs.MessageType == cla.ReceivedBundle {
				recv <- c12Enc(cs.Message.(cla.ConvergenceReceivedBundle).Bundle)
			}
		}
	}()
	for run := 0; run < 12*scale; run++ {
		client := NewAnonymousMTCPClient(fmt.Sprintf("127.0.0.1:%d", port), false)
		if err, _ := client.Start(); err != nil {
			t.Fatal(err)
		}
		go func() {
			for range client.Channel() {
			}
		}()
		tap := &c12Tap{Conn: client.conn}
		client.mutex.Lock()
		client.conn = tap
		client.mutex.Unlock()
		n := 1 + r.intn(12)
		var sent [][]byte
		var results []string
		for i := 0; i < n; i++ {
			for k := r.intn(4); k > 0 && r.intn(2) == 0; k-- {
				client.mutex.Lock()
				_, _ = client.conn.Write([]byte{0x40}) // what the ticker writes every 5 s
				client.mutex.Unlock()
			}
			pl := r.intn(40)
			if r.intn(5) == 0 {
				pl = 200 + r.intn(3000)
			}
			if r.intn(25) == 0 {
				pl = 70000
			}
			b, enc := c12Bundle(r, pl)
			sent = append(sent, enc)
			if err := client.Send(b); err != nil {
				results = append(results, "err")
			} else {
				results = append(results, "ok")
			}
		}
		var got [][]byte
		timeout := time.After(20 * time.Second)
	collect:
		for len(got) < n {
			select {
			case e := <-recv:
				got = append(got, e)
			case <-timeout:
				break collect
			}
		}
		_ = client.Close()
		tap.mu.Lock()
		wire := append([]byte{}, tap.buf.Bytes()...)
		tap.mu.Unlock()
		fmt.Fprintf(w, "mtcp stream %s %s %s %s\n", c12Hex(wire), c12HexList(sent), c12HexList(got), strings.Join(results, ","))
	}

	// ---- (4) D32, observation only (TCP timing decides): Send on a connection whose peer is gone
	{
		// (a) the peer closed the connection 100 ms ago
		d32N, d32FirstOk := 0, 0
		ln, _ := net.Listen("tcp", "127.0.0.1:0")
		go func() {
			for {
				c, err := ln.Accept()
				if err != nil {
					return
				}
				_ = c.Close()
			}
		}()
		for rep := 0; rep < 5; rep++ {
			client := NewAnonymousMTCPClient(ln.Addr().String(), false)
			if err, _ := client.Start(); err != nil {
				continue
			}
			gone := 0
			var mu sync.Mutex
			chDone := make(chan struct{})
			go func() {
				defer close(chDone)
				for cs := range client.Channel() {
					if cs.MessageType == cla.PeerDisappeared {
						mu.Lock()
						gone++
						mu.Unlock()
					}
				}
			}()
			time.Sleep(100 * time.Millisecond)
			var res []string
			for i := 0; i < 3; i++ {
				b, _ := c12Bundle(r, 10)
				if err := client.Send(b); err != nil {
					res = append(res, "err")
				} else {
					res = append(res, "ok")
				}
				time.Sleep(20 * time.Millisecond)
			}
			_ = client.Close()
			<-chDone
			fmt.Fprintf(w, "mtcp d32obs peer-closed %s gone=%d\n", strings.Join(res, ","), gone)
			d32N++
			if len(res) > 0 && res[0] == "ok" {
				d32FirstOk++
			}
		}
		// (a') the same with a consumer that is busy: it looks at the report channel every 15 ms instead of being
		// parked on it - the report of a failed Send must wait for it, not be dropped
		for rep := 0; rep < 3; rep++ {
			client := NewAnonymousMTCPClient(ln.Addr().String(), false)
			if err, _ := client.Start(); err != nil {
				continue
			}
			gone := 0
			var mu sync.Mutex
			chDone := make(chan struct{})
			go func() {
				defer close(chDone)
				for {
					time.Sleep(15 * time.Millisecond)
					select {
					case cs, ok := <-client.Channel():
						if !ok {
							return
						}
						if cs.MessageType == cla.PeerDisappeared {
							mu.Lock()
							gone++
							mu.Unlock()
						}
					default:
					}
				}
			}()
			time.Sleep(100 * time.Millisecond)
			var res []string
			for i := 0; i < 3; i++ {
				b, _ := c12Bundle(r, 10)
				if err := client.Send(b); err != nil {
					res = append(res, "err")
				} else {
					res = append(res, "ok")
				}
				time.Sleep(20 * time.Millisecond)
			}
			time.Sleep(60 * time.Millisecond)
			_ = client.Close()
			select {
			case <-chDone:
			case <-time.After(3 * time.Second):
			}
			mu.Lock()
			g := gone
			mu.Unlock()
			fmt.Fprintf(w, "mtcp d32obs peer-closed-busy-consumer %s gone=%d\n", strings.Join(res, ","), g)
			d32N++
			if len(res) > 0 && res[0] == "ok" {
				d32FirstOk++
			}
		}
		_ = ln.Close()
		// one Send that is told "ok" although the peer closed the connection 100 ms before can be TCP timing; EVERY
		// first Send being told "ok" means the liveness probe of Send does not do its job (the bundle is lost silently)
		fmt.Fprintf(w, "mtcp d32sum first-ok=%d of=%d\n", d32FirstOk, d32N)
	}
	{
		// (b) the server CLA was closed (listener gone, report channel closed) while the connection is still open
		client := NewAnonymousMTCPClient(fmt.Sprintf("127.0.0.1:%d", port), false)
		if err, _ := client.Start(); err == nil {
			go func() {
				for range client.Channel() {
				}
			}()
			b0, _ := c12Bundle(r, 10)
			r0 := client.Send(b0)
			<-recv
			_ = serv.Close()
			<-servDone
			var res []string
			for i := 0; i < 3; i++ {
				b, _ := c12Bundle(r, 10)
				if err := client.Send(b); err != nil {
					res = append(res, "err")
				} else {
					res = append(res, "ok")
				}
				time.Sleep(50 * time.Millisecond)
			}
			_ = client.Close()
			fmt.Fprintf(w, "mtcp d32obs server-cla-closed-first-send-ok=%v %s gone=?\n", r0 == nil, strings.Join(res, ","))
		}
	}

	// ---- (2) raw streams into the real handleSender over loopback TCP
	for run := 0; run < 40*scale; run++ {
		n := r.intn(8)
		var sent [][]byte
		var stream []byte
		wf := true
		for i := 0; i < n; i++ {
			for k := r.intn(5); k > 0 && r.intn(2) == 0; k-- {
				switch r.intn(6) {
				case 0:
					stream = append(stream, 0x58, 0x00) // empty byte string, one-byte length
				case 1:
					stream = append(stream, 0x59, 0x00, 0x00)
				default:
					stream = append(stream, 0x40)
				}
			}
			pl := r.intn(30)
			if r.intn(6) == 0 {
				pl = 250 + r.intn(2000)
			}
			_, enc := c12Bundle(r, pl)
			sent = append(sent, enc)
			hd := c12Head(len(enc))
			if run%8 == 7 && r.intn(3) == 0 {
				// the announced length is not what follows (the server does not use it to delimit)
				hd = c12Head(1 + r.intn(2*len(enc)))
				if r.intn(3) == 0 {
					hd = c12Head(1 + r.intn(3)) // the smallest non-zero announcements: still "a bundle follows"
				}
			}
			stream = append(stream, hd...)
			stream = append(stream, enc...)
		}
		if run%10 == 9 && n > 0 {
			// something that is not a byte string head in the middle: the connection is dropped there
			wf = false
			cut := r.intn(len(stream))
			bad := []byte{0x00, 0x60, 0x80, 0x9f, 0xff, 0x1c, 0x5c, 0xf6}[r.intn(8)]
			stream = append(append(append([]byte{}, stream[:cut]...), bad), stream[cut:]...)
		}
		got := c12Serve(r, stream)
		label := "wf"
		if !wf {
			label = "bad"
		}
		fmt.Fprintf(w, "mtcp raw %s %s %s %s\n", label, c12Hex(stream), c12HexList(sent), c12HexList(got))
	}

	// announced lengths 1, 2, 3, 23, 24 (any non-zero announcement means "a bundle follows"; its value is not used)
	for _, ann := range []int{1, 2, 3, 23, 24, 255, 256} {
		_, e1 := c12Bundle(r, r.intn(10))
		_, e2 := c12Bundle(r, r.intn(10))
		var stream []byte
		stream = append(stream, c12Head(ann)...)
		stream = append(stream, e1...)
		stream = append(stream, 0x40)
		stream = append(stream, c12Head(len(e2))...)
		stream = append(stream, e2...)
		got := c12Serve(r, stream)
		fmt.Fprintf(w, "mtcp raw wf %s %s %s\n", c12Hex(stream), c12HexList([][]byte{e1, e2}), c12HexList(got))
	}

	// ---- (3) connection cut after every byte offset of a short stream (two small bundles, keep-alives around them)
	for rep := 0; rep < 1+scale/3; rep++ {
		_, e1 := c12Bundle(r, 3+r.intn(4))
		_, e2 := c12Bundle(r, r.intn(3))
		var stream []byte
		stream = append(stream, 0x40)
		stream = append(stream, c12Head(len(e1))...)
		stream = append(stream, e1...)
		stream = append(stream, 0x40, 0x40)
		stream = append(stream, c12Head(len(e2))...)
		stream = append(stream, e2...)
		stream = append(stream, 0x40)
		for k := 0; k <= len(stream); k++ {
			got := c12Serve(r, stream[:k])
			fmt.Fprintf(w, "mtcp cut %d %s %s %s\n", k, c12Hex(stream), c12HexList([][]byte{e1, e2}), c12HexList(got))
		}
	}
}
