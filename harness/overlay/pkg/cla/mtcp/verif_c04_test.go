package mtcp

// C04 harness for MTCP frames: the bytes of one TCP connection are handed to the real
// MTCPServer.handleSender through a net.Pipe; the outcome is "value" when at least one bundle was
// reported on the server's channel before the handler returned, "error" otherwise.

import (
	"bytes"
	"fmt"
	"net"
	"testing"
	"time"

	"github.com/dtn7/cboring"
	log "github.com/sirupsen/logrus"

	"github.com/dtn7/dtn7-go/pkg/bpv7"
)

func verifC04Decoders() map[string]verifC04Dec {
	return map[string]verifC04Dec{
		"mtcp": func(in []byte) (string, string) {
			serv := NewMTCPServer("127.0.0.1:0", bpv7.MustNewEndpointID("dtn://mtcp/"), false)
			client, server := net.Pipe()
			received := 0
			stop := make(chan struct{})
			drained := make(chan struct{})
			go func() {
				defer close(drained)
				for {
					select {
					case <-serv.reportChan:
						received++
					case <-stop:
						return
					}
				}
			}()
			go func() {
				_, _ = client.Write(in)
				_ = client.Close()
			}()
			fin := make(chan struct{})
			go func() { serv.handleSender(server); close(fin) }()
			select {
			case <-fin:
			case <-time.After(verifC04Budget()):
				close(stop)
				return "timeout", "-" // the parent does not reuse this child
			}
			close(stop)
			<-drained
			if received > 0 {
				return "value", fmt.Sprintf("bundles=%d", received)
			}
			return "error", "-"
		},
	}
}

func verifC04Frame(payload int, crc bpv7.CRCType) []byte {
	b, err := bpv7.Builder().CRC(crc).
		Source("dtn://src/").Destination("dtn://dst/").
		CreationTimestampEpoch().Lifetime("10m").
		BundleAgeBlock(uint64(5)).HopCountBlock(32).
		PayloadBlock(bytes.Repeat([]byte{0x42}, payload)).
		Build()
	if err != nil {
		panic(err)
	}
	var bb, out bytes.Buffer
	if err := b.MarshalCbor(&bb); err != nil {
		panic(err)
	}
	_ = cboring.WriteByteStringLen(uint64(bb.Len()), &out)
	out.Write(bb.Bytes())
	return out.Bytes()
}

func verifC04Gen(r *verifC04Rng, thorough bool) (cases []verifC04Case) {
	nRand := 100
	if thorough {
		nRand = 4000
	}
	for _, f := range [][]byte{verifC04Frame(10, bpv7.CRCNo), verifC04Frame(40, bpv7.CRC32)} {
		cases = append(cases, verifC04Case{"mtcp", f})
		// the frame header is a byte string head whose content is NOT consumed as such: lie in it
		for _, v := range verifC04Boundary {
			for _, w := range []int{0, 8} {
				cases = append(cases, verifC04Case{"mtcp", append(verifC04Head(2, v, w), f[2:]...)})
			}
		}
		// boundary values inside the bundle
		for _, c := range verifC04CborBoundaries("mtcp", f[2:]) {
			cases = append(cases, verifC04Case{"mtcp", append(append([]byte(nil), f[:2]...), c.in...)})
		}
		cases = append(cases, verifC04Truncations("mtcp", f)...)
		cases = append(cases, verifC04Random("mtcp", f, nRand, r)...)
		// several frames on one connection, keep-alive zero-length frames in between
		two := append(append(append([]byte(nil), f...), 0x40, 0x40, 0x40), f...)
		cases = append(cases, verifC04Case{"mtcp", two})
		cases = append(cases, verifC04Random("mtcp", two, nRand/4, r)...)
	}
	cases = append(cases, verifC04Case{"mtcp", bytes.Repeat([]byte{0x40}, 60000)})
	big := verifC04Frame(60000, bpv7.CRCNo)
	cases = append(cases, verifC04Case{"mtcp", big}, verifC04Case{"mtcp", big[:len(big)/2]})
	return
}

func TestVerifC04(t *testing.T) {
	log.SetLevel(log.PanicLevel)
	verifC04Main(t, "TestVerifC04", verifC04Decoders(), verifC04Gen)
}
