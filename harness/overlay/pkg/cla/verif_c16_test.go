package cla

// Correspondence harness for C16 (attached to the package with `go test -overlay`; never part of /repo).
//
// It replays operation traces on a REAL cla.Manager with scripted mock adapters and writes one whole
// trace per line to $VERIF_OUT (format: see /verif/lean/Driver/C16.lean).
//
// Determinism without sleeping:
//   - Register / Unregister / Restart / Sender / Receiver are synchronous methods; they are called
//     directly (in a goroutine with recover + a 2 s watchdog, so that a panic or a dead-lock becomes
//     an outcome).
//   - The retry pass ("tick"), the PeerDisappeared reaction and the shutdown live inside
//     Manager.handler(). The harness builds the Manager by hand (same fields as NewManager) and runs
//     the real handler() only for the duration of one such operation:
//     tick:  handler() is started with a short retryTime; its first ticker event runs exactly the
//     retry pass of the real code. A permanent, always failing "sentinel" adapter (neither
//     sender nor receiver, in the registry only while the pass runs) is visited once per pass; on that visit it
//     queues a poison ConvergenceStatus whose Sender's String() method calls runtime.Goexit().
//     After the pass the handler's select takes that message (handler evaluates cs.String())
//     and the goroutine ends, deferred ticker.Stop() included. The sentinel counts the passes:
//     anything but exactly one pass discards the run and the trace is replayed from scratch
//     with a longer period (never observed to need more than one extra try).
//     peerDisappeared: handler() with a 1 h period; the status message goes through the adapter's
//     own channel when its element goroutine runs (otherwise straight into inChnl, a message
//     that was in flight); the harness then reads the forwarded message from Channel() —
//     Restart has completed by then — and ends the handler with the poison message.
//     close: handler() with a 1 h period, then the real Manager.Close().
//   - Panics in the handler goroutine are recovered by the wrapper that started it.

import (
	"bufio"
	"fmt"
	"io"
	"os"
	"runtime"
	"sort"
	"strconv"
	"strings"
	"sync"
	"sync/atomic"
	"testing"
	"time"

	log "github.com/sirupsen/logrus"

	"github.com/dtn7/dtn7-go/pkg/bpv7"
)

// ---------------------------------------------------------------------------------------------
// trace description

type v16Adapter struct {
	addr   int
	kind   byte // 's' sender, 'r' receiver, 'b' both
	perm   bool
	eid    int    // receiver role: own endpoint id
	peer   int    // sender role: peer endpoint id
	script []byte // answers of successive Start calls: 'o' ok, 'r' fail+retry, 'n' fail+no retry; beyond: 'o'
}

type v16Op struct {
	kind byte // 'R' register, 'U' unregister, 'X' restart, 'T' tick, 'P' peer disappeared, 'C' close
	arg  int
}

func (o v16Op) String() string {
	if o.kind == 'T' || o.kind == 'C' {
		return string(o.kind)
	}
	return string(o.kind) + strconv.Itoa(o.arg)
}

type v16Spec struct {
	budget   int
	adapters []v16Adapter
	ops      []v16Op
}

type v16Event struct {
	start   bool
	adapter int
	ans     byte
}

func (e v16Event) String() string {
	if e.start {
		return "s" + strconv.Itoa(e.adapter) + string(e.ans)
	}
	return "c" + strconv.Itoa(e.adapter)
}

type v16Step struct {
	op        v16Op
	senders   []int
	receivers []int
	events    []v16Event
	outcome   byte // 'k' ok, 'p' panic, 'd' dead-lock
	note      string
}

// one consumed script answer: (step, adapter, call index)
type v16Read struct {
	step, adapter, k int
	ans              byte
}

// ---------------------------------------------------------------------------------------------
// mocks

var v16Eids = func() []bpv7.EndpointID {
	var out []bpv7.EndpointID
	for i := 0; i < 8; i++ {
		out = append(out, bpv7.MustNewEndpointID(fmt.Sprintf("dtn://n%d/", i)))
	}
	return out
}()

type v16Run struct {
	mu     sync.Mutex
	events []v16Event
	reads  []v16Read
	step   int
}

type v16Mock struct {
	run     *v16Run
	id      int
	cfg     v16Adapter
	ch      chan ConvergenceStatus
	calls   int
	running bool // last Start ok and not closed since (harness' own bookkeeping for the P op)
}

func (m *v16Mock) Start() (error, bool) {
	m.run.mu.Lock()
	defer m.run.mu.Unlock()
	ans := byte('o')
	if m.calls < len(m.cfg.script) {
		ans = m.cfg.script[m.calls]
	}
	m.run.reads = append(m.run.reads, v16Read{m.run.step, m.id, m.calls, ans})
	m.calls++
	m.run.events = append(m.run.events, v16Event{true, m.id, ans})
	switch ans {
	case 'o':
		m.running = true
		return nil, false
	case 'r':
		return fmt.Errorf("scripted failure, retry"), true
	default:
		return fmt.Errorf("scripted failure, no retry"), false
	}
}

func (m *v16Mock) Close() error {
	m.run.mu.Lock()
	defer m.run.mu.Unlock()
	m.running = false
	m.run.events = append(m.run.events, v16Event{false, m.id, 0})
	return nil
}

func (m *v16Mock) Channel() chan ConvergenceStatus { return m.ch }
func (m *v16Mock) Address() string                 { return "addr" + strconv.Itoa(m.cfg.addr) }
func (m *v16Mock) IsPermanent() bool               { return m.cfg.perm }
func (m *v16Mock) String() string                  { return "mock" + strconv.Itoa(m.id) }

type v16Sender struct{ *v16Mock }

func (m *v16Sender) Send(bpv7.Bundle) error             { return nil }
func (m *v16Sender) GetPeerEndpointID() bpv7.EndpointID { return v16Eids[m.cfg.peer] }

type v16Receiver struct{ *v16Mock }

func (m *v16Receiver) GetEndpointID() bpv7.EndpointID { return v16Eids[m.cfg.eid] }

type v16Both struct{ *v16Mock }

func (m *v16Both) Send(bpv7.Bundle) error             { return nil }
func (m *v16Both) GetPeerEndpointID() bpv7.EndpointID { return v16Eids[m.cfg.peer] }
func (m *v16Both) GetEndpointID() bpv7.EndpointID     { return v16Eids[m.cfg.eid] }

// the sentinel: a plain Convergence (neither sender nor receiver), permanent, never starts
type v16Sentinel struct {
	mgr    *Manager
	passes int32
	ch     chan ConvergenceStatus
}

func (s *v16Sentinel) Start() (error, bool) {
	if atomic.AddInt32(&s.passes, 1) == 1 {
		s.mgr.inChnl <- ConvergenceStatus{Sender: v16Poison{}, MessageType: 0}
	}
	return fmt.Errorf("sentinel"), true
}
func (s *v16Sentinel) Close() error                    { return nil }
func (s *v16Sentinel) Channel() chan ConvergenceStatus { return s.ch }
func (s *v16Sentinel) Address() string                 { return "~sentinel" }
func (s *v16Sentinel) IsPermanent() bool               { return true }
func (s *v16Sentinel) String() string                  { return "sentinel" }

// the poison message: Manager.handler evaluates cs.String() => fmt calls Sender.String()
type v16Poison struct{}

func (v16Poison) Start() (error, bool)            { return nil, false }
func (v16Poison) Close() error                    { return nil }
func (v16Poison) Channel() chan ConvergenceStatus { return nil }
func (v16Poison) Address() string                 { return "~poison" }
func (v16Poison) IsPermanent() bool               { return false }
func (v16Poison) String() string                  { runtime.Goexit(); return "" }

// ---------------------------------------------------------------------------------------------
// running one trace on a real Manager

// The watchdog that turns a dead-lock into an outcome. On a loaded machine a healthy goroutine can
// miss it, so a trace that ended in 'd' is repeated alone with v16WatchdogConfirm before it counts.
var v16Watchdog = 2 * time.Second

const v16WatchdogConfirm = 20 * time.Second

type v16Exec struct {
	watchdog time.Duration
	spec     v16Spec
	run      *v16Run
	mgr      *Manager
	mocks    []*v16Mock
	convs    []Convergence
	sentinel *v16Sentinel
	closed   bool
	period   time.Duration
	spoiled  bool
}

func v16NewExec(spec v16Spec, period, watchdog time.Duration) *v16Exec {
	x := &v16Exec{spec: spec, run: &v16Run{}, period: period, watchdog: watchdog}
	// the fields NewManager sets, without starting handler()
	x.mgr = &Manager{
		queueTtl:    int32(spec.budget),
		retryTime:   time.Hour,
		convs:       new(sync.Map),
		listenerIDs: make(map[CLAType][]bpv7.EndpointID),
		inChnl:      make(chan ConvergenceStatus, 100),
		outChnl:     make(chan ConvergenceStatus),
		stopSyn:     make(chan struct{}),
		stopAck:     make(chan struct{}),
	}
	for i, a := range spec.adapters {
		a.script = append([]byte{}, a.script...)
		m := &v16Mock{run: x.run, id: i, cfg: a, ch: make(chan ConvergenceStatus)}
		x.mocks = append(x.mocks, m)
		switch a.kind {
		case 's':
			x.convs = append(x.convs, &v16Sender{m})
		case 'r':
			x.convs = append(x.convs, &v16Receiver{m})
		default:
			x.convs = append(x.convs, &v16Both{m})
		}
	}
	x.sentinel = &v16Sentinel{mgr: x.mgr, ch: make(chan ConvergenceStatus)}
	return x
}

// startHandler runs the real Manager.handler(); the returned channel yields its panic value (nil
// for a normal return or a Goexit).
func (x *v16Exec) startHandler(period time.Duration) chan interface{} {
	x.mgr.retryTime = period
	done := make(chan interface{}, 1)
	go func() {
		defer func() { done <- recover() }()
		x.mgr.handler()
	}()
	return done
}

// guarded runs f with recover and the watchdog.
func v16Guarded(watchdog time.Duration, f func()) (outcome byte, note string) {
	res := make(chan interface{}, 1)
	go func() {
		defer func() { res <- recover() }()
		f()
	}()
	select {
	case p := <-res:
		if p != nil {
			return 'p', fmt.Sprint(p)
		}
		return 'k', ""
	case <-time.After(watchdog):
		return 'd', "watchdog"
	}
}

func (x *v16Exec) poison(done chan interface{}) (byte, string) {
	x.mgr.inChnl <- ConvergenceStatus{Sender: v16Poison{}, MessageType: 0}
	select {
	case p := <-done:
		if p != nil {
			return 'p', fmt.Sprint(p)
		}
		return 'k', ""
	case <-time.After(x.watchdog):
		return 'd', "handler did not end"
	}
}

func (x *v16Exec) doOp(op v16Op) (outcome byte, note string) {
	switch op.kind {
	case 'R':
		return v16Guarded(x.watchdog, func() { x.mgr.Register(x.convs[op.arg]) })
	case 'U':
		return v16Guarded(x.watchdog, func() { x.mgr.Unregister(x.convs[op.arg]) })
	case 'X':
		return v16Guarded(x.watchdog, func() { x.mgr.Restart(x.convs[op.arg]) })
	case 'T':
		if x.closed {
			return 'k', "" // handler() has returned: no ticker any more
		}
		// the sentinel is registered for the duration of the pass only, so that no other operation
		// (Close, Unregister, ...) ever meets it
		x.mgr.convs.Store(x.sentinel.Address(), newConvergenceElement(x.sentinel, x.mgr.inChnl, 1<<20))
		defer x.mgr.convs.Delete(x.sentinel.Address())
		atomic.StoreInt32(&x.sentinel.passes, 0)
		done := x.startHandler(x.period)
		select {
		case p := <-done:
			if n := atomic.LoadInt32(&x.sentinel.passes); n != 1 {
				x.spoiled = true
			}
			if p != nil {
				return 'p', fmt.Sprint(p)
			}
			return 'k', ""
		case <-time.After(x.watchdog + x.period):
			return 'd', "tick pass did not end"
		}
	case 'P':
		if x.closed {
			return 'k', "" // nobody listens any more
		}
		done := x.startHandler(time.Hour)
		m := x.mocks[op.arg]
		cs := NewConvergencePeerDisappeared(x.convs[op.arg], v16Eids[m.cfg.peer])
		x.run.mu.Lock()
		running := m.running
		x.run.mu.Unlock()
		if running {
			select {
			case m.ch <- cs:
			case <-time.After(x.watchdog):
				return 'd', "adapter channel not read"
			}
		} else {
			x.mgr.inChnl <- cs
		}
		select {
		case <-x.mgr.outChnl:
		case p := <-done:
			if p != nil {
				return 'p', fmt.Sprint(p)
			}
			return 'd', "handler ended early"
		case <-time.After(x.watchdog):
			return 'd', "status not forwarded"
		}
		return x.poison(done)
	case 'C':
		if x.closed {
			// a second Close: no handler is running any more; call it as a user would
			return v16Guarded(x.watchdog, func() { _ = x.mgr.Close() })
		}
		done := x.startHandler(time.Hour)
		res := make(chan interface{}, 1)
		go func() {
			defer func() { res <- recover() }()
			_ = x.mgr.Close()
		}()
		x.closed = true
		select {
		case p := <-res:
			if p != nil {
				return 'p', fmt.Sprint(p)
			}
			return 'k', ""
		case p := <-done:
			if p != nil {
				return 'p', fmt.Sprint(p)
			}
			// normal return of handler: Close returns right after
			select {
			case p := <-res:
				if p != nil {
					return 'p', fmt.Sprint(p)
				}
				return 'k', ""
			case <-time.After(x.watchdog):
				return 'd', "Close did not return"
			}
		case <-time.After(x.watchdog):
			return 'd', "Close did not return"
		}
	}
	return 'd', "unknown op"
}

func (x *v16Exec) listing() (snd, rcv []int, err string) {
	out, note := v16Guarded(x.watchdog, func() {
		for _, s := range x.mgr.Sender() {
			switch c := s.(type) {
			case *v16Sender:
				snd = append(snd, c.id)
			case *v16Both:
				snd = append(snd, c.id)
			default:
				snd = append(snd, -1)
			}
		}
		for _, r := range x.mgr.Receiver() {
			switch c := r.(type) {
			case *v16Receiver:
				rcv = append(rcv, c.id)
			case *v16Both:
				rcv = append(rcv, c.id)
			default:
				rcv = append(rcv, -1)
			}
		}
	})
	if out != 'k' {
		return nil, nil, "listing " + string(out) + " " + note
	}
	sort.Ints(snd)
	sort.Ints(rcv)
	return
}

// v16RunOnce executes the trace; ok=false means the run must be repeated (tick pass count != 1).
func v16RunOnce(spec v16Spec, period, watchdog time.Duration) (steps []v16Step, reads []v16Read, ok bool) {
	x := v16NewExec(spec, period, watchdog)
	for i, op := range spec.ops {
		x.run.mu.Lock()
		x.run.step = i
		before := len(x.run.events)
		x.run.mu.Unlock()
		outcome, note := x.doOp(op)
		if x.spoiled {
			x.abandon()
			return nil, nil, false
		}
		st := v16Step{op: op, outcome: outcome, note: note}
		x.run.mu.Lock()
		st.events = append(st.events, x.run.events[before:]...)
		x.run.mu.Unlock()
		// canonical order: by adapter, stable (per adapter chronological)
		sort.SliceStable(st.events, func(a, b int) bool { return st.events[a].adapter < st.events[b].adapter })
		if outcome == 'k' {
			var e string
			st.senders, st.receivers, e = x.listing()
			if e != "" {
				st.outcome, st.note = 'd', e
			}
		}
		steps = append(steps, st)
		if st.outcome != 'k' {
			break // the manager is broken: the trace ends here
		}
	}
	x.run.mu.Lock()
	reads = append(reads, x.run.reads...)
	x.run.mu.Unlock()
	x.abandon()
	return steps, reads, true
}

// abandon releases what a finished trace may still hold (element goroutines of running adapters).
func (x *v16Exec) abandon() {
	if x.closed {
		return
	}
	x.mgr.convs.Range(func(_, v interface{}) bool {
		ce := v.(*convergenceElem)
		func() {
			defer func() { _ = recover() }()
			if ce.isActive() && ce.stopSyn != nil {
				close(ce.stopSyn)
			}
		}()
		return true
	})
}

var v16ConfirmMu sync.Mutex
var v16Confirmed int32

func v16RunTraceW(spec v16Spec, watchdog time.Duration) (steps []v16Step, reads []v16Read, tries int) {
	period := 500 * time.Microsecond
	if len(spec.ops) > 20 {
		period = 2 * time.Millisecond
	}
	for tries = 1; tries <= 8; tries++ {
		var ok bool
		if steps, reads, ok = v16RunOnce(spec, period, watchdog); ok {
			return
		}
		period *= 4
	}
	return nil, nil, tries
}

func v16RunTrace(spec v16Spec) (steps []v16Step, reads []v16Read, tries int) {
	steps, reads, tries = v16RunTraceW(spec, v16Watchdog)
	if n := len(steps); n > 0 && steps[n-1].outcome == 'd' && atomic.LoadInt32(&v16Confirmed) < 3 {
		// confirm alone (one at a time) with a long watchdog: a real dead-lock reproduces
		v16ConfirmMu.Lock()
		defer v16ConfirmMu.Unlock()
		if atomic.LoadInt32(&v16Confirmed) >= 3 {
			atomic.AddInt32(&v16Deadlocks, 1)
			return
		}
		steps, reads, tries = v16RunTraceW(spec, v16WatchdogConfirm)
		if n := len(steps); n > 0 && steps[n-1].outcome == 'd' {
			atomic.AddInt32(&v16Confirmed, 1)
		}
	}
	if n := len(steps); n > 0 && steps[n-1].outcome == 'd' {
		atomic.AddInt32(&v16Deadlocks, 1)
	}
	return
}

// v16Deadlocks counts traces that ended in a dead-lock; after v16MaxDeadlocks of them the remaining
// jobs are skipped (every one costs a watchdog period; the violation is established).
var v16Deadlocks int32

const v16MaxDeadlocks = 24

// ---------------------------------------------------------------------------------------------
// line format

func v16Ints(xs []int) string {
	if len(xs) == 0 {
		return "-"
	}
	p := make([]string, len(xs))
	for i, x := range xs {
		p[i] = strconv.Itoa(x)
	}
	return strings.Join(p, ".")
}

func v16Line(tag string, spec v16Spec, steps []v16Step, consumed [][]byte) string {
	var b strings.Builder
	fmt.Fprintf(&b, "%s %d ", tag, spec.budget)
	for i, a := range spec.adapters {
		if i > 0 {
			b.WriteByte(',')
		}
		sc := "-"
		if len(consumed[i]) > 0 {
			sc = string(consumed[i])
		}
		p := "n"
		if a.perm {
			p = "p"
		}
		fmt.Fprintf(&b, "%d:%c:%s:%d:%d:%s", a.addr, a.kind, p, a.eid, a.peer, sc)
	}
	b.WriteByte(' ')
	for i, s := range steps {
		if i > 0 {
			b.WriteByte(';')
		}
		ev := "-"
		if len(s.events) > 0 {
			p := make([]string, len(s.events))
			for j, e := range s.events {
				p[j] = e.String()
			}
			ev = strings.Join(p, ".")
		}
		fmt.Fprintf(&b, "%s/%s/%s/%s/%c", s.op, v16Ints(s.senders), v16Ints(s.receivers), ev, s.outcome)
	}
	return b.String()
}

// consumed scripts per adapter (what Start really answered, in call order)
func v16Consumed(n int, reads []v16Read) [][]byte {
	out := make([][]byte, n)
	sort.SliceStable(reads, func(a, b int) bool {
		if reads[a].adapter != reads[b].adapter {
			return reads[a].adapter < reads[b].adapter
		}
		return reads[a].k < reads[b].k
	})
	for _, r := range reads {
		out[r.adapter] = append(out[r.adapter], r.ans)
	}
	return out
}

func v16ParseLine(line string) (tag string, spec v16Spec, err error) {
	f := strings.Fields(line)
	if len(f) < 4 {
		return "", spec, fmt.Errorf("short line")
	}
	tag = f[0]
	spec.budget, err = strconv.Atoi(f[1])
	if err != nil {
		return
	}
	for _, a := range strings.Split(f[2], ",") {
		p := strings.Split(a, ":")
		if len(p) != 6 {
			return "", spec, fmt.Errorf("adapter %q", a)
		}
		ad := v16Adapter{kind: p[1][0], perm: p[2] == "p"}
		ad.addr, _ = strconv.Atoi(p[0])
		ad.eid, _ = strconv.Atoi(p[3])
		ad.peer, _ = strconv.Atoi(p[4])
		if p[5] != "-" {
			ad.script = []byte(p[5])
		}
		spec.adapters = append(spec.adapters, ad)
	}
	for _, s := range strings.Split(f[3], ";") {
		o := strings.SplitN(s, "/", 2)[0]
		op := v16Op{kind: o[0]}
		if len(o) > 1 {
			op.arg, _ = strconv.Atoi(o[1:])
		}
		spec.ops = append(spec.ops, op)
	}
	return
}

// ---------------------------------------------------------------------------------------------
// generators

type v16Rng struct{ s uint64 }

func (r *v16Rng) next() uint64 {
	r.s += 0x9e3779b97f4a7c15
	z := r.s
	z = (z ^ (z >> 30)) * 0xbf58476d1ce4e5b9
	z = (z ^ (z >> 27)) * 0x94d049bb133111eb
	return z ^ (z >> 31)
}
func (r *v16Rng) intn(n int) int { return int(r.next() % uint64(n)) }

// v16EnumScripts runs the op sequence for every distinguishable combination of Start answers: the
// answers are chosen lazily (a new answer position exists only when a run really asks for it), in
// the canonical order (step, adapter, call).
func v16EnumScripts(tag string, base v16Spec, emit func(string), fail func(string)) {
	n := len(base.adapters)
	scripts := make([][]byte, n)
	for {
		spec := base
		spec.adapters = append([]v16Adapter{}, base.adapters...)
		for i := range spec.adapters {
			spec.adapters[i].script = scripts[i]
		}
		steps, reads, tries := v16RunTrace(spec)
		if steps == nil {
			fail(fmt.Sprintf("trace could not be run deterministically after %d tries: %s", tries, v16Line(tag, spec, nil, scripts)))
			return
		}
		sort.SliceStable(reads, func(a, b int) bool {
			if reads[a].step != reads[b].step {
				return reads[a].step < reads[b].step
			}
			if reads[a].adapter != reads[b].adapter {
				return reads[a].adapter < reads[b].adapter
			}
			return reads[a].k < reads[b].k
		})
		ordered := append([]v16Read{}, reads...)
		emit(v16Line(tag, spec, steps, v16Consumed(n, reads)))
		if atomic.LoadInt32(&v16Deadlocks) >= v16MaxDeadlocks {
			return
		}
		// odometer over the consumed answers
		j := len(ordered) - 1
		for j >= 0 && ordered[j].ans == 'n' {
			j--
		}
		if j < 0 {
			return
		}
		if ordered[j].ans == 'o' {
			ordered[j].ans = 'r'
		} else {
			ordered[j].ans = 'n'
		}
		ordered = ordered[:j+1]
		scripts = make([][]byte, n)
		sort.SliceStable(ordered, func(a, b int) bool {
			if ordered[a].adapter != ordered[b].adapter {
				return ordered[a].adapter < ordered[b].adapter
			}
			return ordered[a].k < ordered[b].k
		})
		for _, r := range ordered {
			scripts[r.adapter] = append(scripts[r.adapter], r.ans)
		}
	}
}

func v16Sequences(alphabet []v16Op, length int, keep func([]v16Op) bool) [][]v16Op {
	var out [][]v16Op
	cur := make([]v16Op, length)
	var rec func(i int)
	rec = func(i int) {
		if i == length {
			if keep == nil || keep(cur) {
				out = append(out, append([]v16Op{}, cur...))
			}
			return
		}
		for _, o := range alphabet {
			cur[i] = o
			rec(i + 1)
		}
	}
	rec(0)
	return out
}

// pruning for the length-5 sequences of the thorough tier: drop sequences that are equivalent to a
// shorter one which the quick tier enumerates anyway (a leading operation that cannot act on the
// empty registry; operations after the first close other than one probe).
func v16KeepPruned(ops []v16Op) bool {
	switch ops[0].kind {
	case 'U', 'T':
		return false
	}
	for i, o := range ops {
		if o.kind == 'C' && i < len(ops)-2 {
			return false
		}
	}
	return true
}

type v16Job struct {
	tag  string
	spec v16Spec
	enum bool
}

func TestVerifC16(t *testing.T) {
	outPath := os.Getenv("VERIF_OUT")
	if outPath == "" {
		t.Skip("VERIF_OUT not set")
	}
	log.SetLevel(log.PanicLevel)
	log.SetOutput(io.Discard)
	f, err := os.Create(outPath)
	if err != nil {
		t.Fatal(err)
	}
	defer f.Close()
	w := bufio.NewWriterSize(f, 1<<20)
	defer w.Flush()
	seed, _ := strconv.ParseUint(os.Getenv("VERIF_SEED"), 10, 64)
	thorough := os.Getenv("VERIF_TIER") == "thorough"
	t0 := time.Now()

	var jobs []v16Job

	if rp := os.Getenv("VERIF_REPLAY"); rp != "" {
		// the replay file is JSON with "minimal_input": "<trace line>"; a plain trace line works too
		raw, err := os.ReadFile(rp)
		if err != nil {
			t.Fatal(err)
		}
		s := string(raw)
		if i := strings.Index(s, "\"minimal_input\":"); i >= 0 {
			s = s[i+len("\"minimal_input\":"):]
			s = s[strings.Index(s, "\"")+1:]
			s = s[:strings.Index(s, "\"")]
		}
		tag, spec, err := v16ParseLine(strings.TrimSpace(s))
		if err != nil {
			t.Fatal(err)
		}
		jobs = append(jobs, v16Job{tag, spec, false})
	} else {
		// (1) single address, two instances: the alphabet of the property statement
		alpha1 := []v16Op{{'R', 0}, {'R', 1}, {'U', 0}, {'X', 0}, {'T', 0}, {'P', 0}, {'C', 0}}
		var seqs1 [][]v16Op
		if thorough {
			seqs1 = v16Sequences(alpha1, 5, v16KeepPruned)
			// a deterministic sample of longer sequences
			rs := &v16Rng{s: seed*0x9e3779b97f4a7c15 + 61}
			for _, l := range []int{6, 6, 6, 7, 8} {
				for k := 0; k < 60; k++ {
					ops := make([]v16Op, l)
					for i := range ops {
						ops[i] = alpha1[rs.intn(len(alpha1)-1)] // no close inside
					}
					if rs.intn(2) == 0 {
						ops[l-1] = v16Op{'C', 0}
					}
					seqs1 = append(seqs1, ops)
				}
			}
		} else {
			seqs1 = v16Sequences(alpha1, 4, nil)
		}
		for _, perm := range []bool{false, true} {
			for b := 0; b <= 3; b++ {
				for _, ops := range seqs1 {
					jobs = append(jobs, v16Job{"enum1", v16Spec{budget: b, ops: ops, adapters: []v16Adapter{
						{addr: 0, kind: 's', perm: perm, eid: 0, peer: 1},
						{addr: 0, kind: 's', perm: perm, eid: 0, peer: 1},
					}}, true})
				}
			}
		}
		// (2) a sender whose peer is a registered receiver's endpoint, plus an adapter that is both
		alpha2 := []v16Op{{'R', 0}, {'R', 1}, {'U', 1}, {'X', 0}, {'T', 0}, {'R', 2}, {'C', 0}}
		l2 := 4
		if thorough {
			l2 = 5
		}
		// only sequences in which the receiver or the two-role adapter is registered (the others
		// are instances of family 1)
		keep2 := func(ops []v16Op) bool {
			for _, o := range ops[:len(ops)-1] {
				if o.kind == 'R' && o.arg != 0 {
					return true
				}
			}
			return false
		}
		budgets2 := []int{1, 2}
		if thorough {
			budgets2 = []int{1}
		}
		for _, perm := range []bool{false, true} {
			for _, b := range budgets2 {
				for _, ops := range v16Sequences(alpha2, l2, keep2) {
					jobs = append(jobs, v16Job{"enum2", v16Spec{budget: b, ops: ops, adapters: []v16Adapter{
						{addr: 0, kind: 's', perm: perm, eid: 0, peer: 1},
						{addr: 1, kind: 'r', perm: false, eid: 1, peer: 0},
						{addr: 2, kind: 'b', perm: perm, eid: 2, peer: 1},
					}}, true})
				}
			}
		}
		// (3) random long traces over six adapters on three addresses
		r := &v16Rng{s: seed*0x9e3779b97f4a7c15 + 16}
		nRand := 300
		if thorough {
			nRand = 3000
		}
		for i := 0; i < nRand; i++ {
			spec := v16Spec{budget: []int{0, 1, 2, 3, 3, 10}[r.intn(6)]}
			na := 2 + r.intn(5)
			for a := 0; a < na; a++ {
				ad := v16Adapter{addr: r.intn(3), kind: "srb"[r.intn(3)], perm: r.intn(2) == 0, eid: r.intn(3), peer: r.intn(3)}
				bias := r.intn(4) // 0: mostly ok, 1: mostly retry, 2: mixed, 3: with no-retry
				for k := 0; k < 40; k++ {
					var c byte
					switch bias {
					case 0:
						c = "ooooorn"[r.intn(7)]
					case 1:
						c = "rrrrrrrrron"[r.intn(11)]
					case 2:
						c = "orrorr"[r.intn(6)]
					default:
						c = "ornrn"[r.intn(5)]
					}
					ad.script = append(ad.script, c)
				}
				spec.adapters = append(spec.adapters, ad)
			}
			n := 1 + r.intn(200)
			if i%10 == 0 {
				n = 200
			}
			closeAt := -1
			if r.intn(2) == 0 {
				closeAt = r.intn(n)
			}
			for k := 0; k < n; k++ {
				var op v16Op
				switch x := r.intn(20); {
				case x < 5:
					op = v16Op{'R', r.intn(na)}
				case x < 8:
					op = v16Op{'U', r.intn(na)}
				case x < 10:
					op = v16Op{'X', r.intn(na)}
				case x < 17:
					op = v16Op{'T', 0}
				default:
					op = v16Op{'P', r.intn(na)}
				}
				if k == closeAt && k > n/2 {
					op = v16Op{'C', 0}
				}
				spec.ops = append(spec.ops, op)
			}
			if r.intn(3) == 0 {
				spec.ops = append(spec.ops, v16Op{'C', 0})
			}
			jobs = append(jobs, v16Job{"rand", spec, false})
		}
	}

	// run the jobs on a pool (most of the time is spent waiting for the first ticker event); the
	// lines are written in job order as soon as all earlier jobs are done
	results := make([][]string, len(jobs))
	finished := make([]bool, len(jobs))
	var outMu sync.Mutex
	nextOut := 0
	lines, outcomes := 0, map[byte]int{}
	seen := map[uint64]bool{}
	flush := func(i int) {
		outMu.Lock()
		defer outMu.Unlock()
		finished[i] = true
		for nextOut < len(jobs) && finished[nextOut] {
			for _, l := range results[nextOut] {
				// sequences that share a prefix ending in a panic give the same (truncated) trace
				h := uint64(14695981039346656037)
				for k := 0; k < len(l); k++ {
					h = (h ^ uint64(l[k])) * 1099511628211
				}
				if seen[h] {
					continue
				}
				seen[h] = true
				fmt.Fprintln(w, l)
				lines++
				outcomes[l[len(l)-1]]++
			}
			results[nextOut] = nil
			nextOut++
		}
	}
	var failMu sync.Mutex
	var failures []string
	var wg sync.WaitGroup
	var totalTries, totalRuns, skipped int64
	next := int64(-1)
	workers := 4 * runtime.GOMAXPROCS(0)
	for wkr := 0; wkr < workers; wkr++ {
		wg.Add(1)
		go func() {
			defer wg.Done()
			for {
				i := int(atomic.AddInt64(&next, 1))
				if i >= len(jobs) {
					return
				}
				j := jobs[i]
				if atomic.LoadInt32(&v16Deadlocks) >= v16MaxDeadlocks {
					atomic.AddInt64(&skipped, 1)
					flush(i)
					continue
				}
				fail := func(s string) { failMu.Lock(); failures = append(failures, s); failMu.Unlock() }
				if j.enum {
					v16EnumScripts(j.tag, j.spec, func(l string) { results[i] = append(results[i], l) }, fail)
				} else {
					steps, reads, tries := v16RunTrace(j.spec)
					atomic.AddInt64(&totalTries, int64(tries))
					atomic.AddInt64(&totalRuns, 1)
					if steps == nil {
						fail("trace could not be run deterministically: " + v16Line(j.tag, j.spec, nil, make([][]byte, len(j.spec.adapters))))
					} else {
						results[i] = append(results[i], v16Line(j.tag, j.spec, steps, v16Consumed(len(j.spec.adapters), reads)))
					}
				}
				flush(i)
			}
		}()
	}
	wg.Wait()
	fmt.Fprintf(w, "# C16 harness: %d jobs, %d distinct trace lines, final outcomes ok=%d panic=%d deadlock=%d, random traces %d (runs incl. repeats %d), %.1fs\n",
		len(jobs), lines, outcomes['k'], outcomes['p'], outcomes['d'], totalRuns, totalTries, time.Since(t0).Seconds())
	if skipped > 0 {
		fmt.Fprintf(w, "# C16 harness: %d jobs skipped after %d dead-locked traces\n", skipped, atomic.LoadInt32(&v16Deadlocks))
	}
	for _, s := range failures {
		fmt.Fprintf(w, "# FAILURE %s\n", s)
	}
	if len(failures) > 0 {
		t.Fatalf("%d traces could not be run: %s", len(failures), failures[0])
	}
}
