package routing

// Shared machinery of the C05 / C13 correspondence harnesses (attached with `go test -overlay`, never
// part of /repo): abstract histories (events over a few bundles and scripted mock CLAs) are replayed on
// a REAL routing.Core with a store directory under $VERIF_SCRATCH; after every event the send log of
// the mock CLAs, the store items and the in-memory spray bookkeeping are written down. One history per
// line; the format is documented in /verif/lean/Dtn7/Drv/NodeLine.lean.

import (
	"fmt"
	"os"
	"path/filepath"
	"regexp"
	"runtime"
	"sort"
	"strconv"
	"strings"
	"sync"
	"time"

	"github.com/dtn7/dtn7-go/pkg/bpv7"
)

// ---- abstract descriptions -------------------------------------------------------------------

type nEid struct{ node, svc int }

const nBcastNode = 999 // stands for dtn://routing/dtlsr/broadcast/

func (e nEid) str() string { return fmt.Sprintf("%d.%d", e.node, e.svc) }
func (e nEid) real() bpv7.EndpointID {
	if e.node == nBcastNode {
		return bpv7.MustNewEndpointID(dtlsrBroadcastAddress)
	}
	if e.svc == 0 {
		return bpv7.MustNewEndpointID(fmt.Sprintf("dtn://n%d/", e.node))
	}
	return bpv7.MustNewEndpointID(fmt.Sprintf("dtn://n%d/%d", e.node, e.svc))
}

var nEidRe = regexp.MustCompile(`^dtn://n(\d+)/(\d*)$`)

func nEidFrom(e bpv7.EndpointID) (nEid, bool) {
	s := e.String()
	if s == dtlsrBroadcastAddress {
		return nEid{nBcastNode, 0}, true
	}
	m := nEidRe.FindStringSubmatch(s)
	if m == nil {
		return nEid{}, false
	}
	n, _ := strconv.Atoi(m[1])
	v := 0
	if m[2] != "" {
		v, _ = strconv.Atoi(m[2])
	}
	return nEid{n, v}, true
}

func nOptEid(e *nEid) string {
	if e == nil {
		return "-"
	}
	return e.str()
}

type nBundle struct {
	tag      int
	src      nEid
	ts       int64 // abstract ms; 0 = no clock
	seq      int
	dst      nEid
	prev     *nEid
	lifetime int64
	hop      *[2]int // limit, count
	age      *int64
	del      bool
	bs       *int
	// lsTime: the bundle carries a DTLSRBlock with link-state data of its source node and this timestamp
	// (abstract ms; not part of the line: the model's DTLSR records the previous node whatever the data says)
	lsTime *int64
	// mode restricts the events generated for this bundle (not part of the line):
	// 0 = own-source bundles are submitted, foreign-source bundles are received; 'S' / 'R' / 'B' force
	// submit-only / receive-only / both
	mode byte
}

func (b nBundle) str() string {
	hop, age, bs := "-", "-", "-"
	if b.hop != nil {
		hop = fmt.Sprintf("%d.%d", b.hop[0], b.hop[1])
	}
	if b.age != nil {
		age = strconv.FormatInt(*b.age, 10)
	}
	if b.bs != nil {
		bs = strconv.Itoa(*b.bs)
	}
	del := 0
	if b.del {
		del = 1
	}
	return fmt.Sprintf("%d:%s:%d:%d:%s:%s:%d:%s:%s:%d:%s", b.tag, b.src.str(), b.ts, b.seq, b.dst.str(),
		nOptEid(b.prev), b.lifetime, hop, age, del, bs)
}

type nPeer struct {
	addr int
	eid  nEid
}

type nCfg struct {
	self    int
	algo    string // epidemic spray binary_spray prophet dtlsr
	mule    bool
	sensors []int
	l       int
	now     int64
}

func (c nCfg) str() string {
	m := 0
	if c.mule {
		m = 1
	}
	s := "-"
	if len(c.sensors) > 0 {
		var ss []string
		for _, x := range c.sensors {
			ss = append(ss, strconv.Itoa(x))
		}
		s = strings.Join(ss, "+")
	}
	return fmt.Sprintf("%d,%s,%d,%s,%d,%d", c.self, c.algo, m, s, c.l, c.now)
}

// event kinds: S submit, R receive, U peer up, D peer down, T retry tick, C clean tick, X restart
type nEvent struct {
	kind byte
	tag  int
	recv *nEid
	addr int
}

func (e nEvent) str(now int64) string {
	switch e.kind {
	case 'S':
		return fmt.Sprintf("S%d", e.tag)
	case 'R':
		if e.recv != nil {
			return fmt.Sprintf("R%d@%s", e.tag, e.recv.str())
		}
		return fmt.Sprintf("R%d", e.tag)
	case 'U':
		return fmt.Sprintf("U%d", e.addr)
	case 'D':
		return fmt.Sprintf("D%d", e.addr)
	case 'C':
		return fmt.Sprintf("C%d", now)
	}
	return string(e.kind)
}

// nHist is one experiment: configuration, universe and the event list.
type nHist struct {
	op      string // first token of the line
	cfg     nCfg
	peers   []nPeer
	bundles []nBundle
	// oracle: answers of CLA addr to its n-th Send of bundle tag: pattern[n % len]; missing = all ok
	oracle map[[2]int]string
	// cand: (peer endpoint, destination) pairs for which the routing oracle says "forward"
	cand   [][2]nEid
	events []nEvent
	// tickPause: real time that passes before every retry tick (not part of the line: wall-clock time is a
	// parameter of the model; the bundles of such a history outlive it by a wide margin)
	tickPause time.Duration
	// realTimeLimit: a history with tickPause is only emitted when it took no longer than this
	realTimeLimit time.Duration
}

func (h *nHist) bundle(tag int) *nBundle {
	for i := range h.bundles {
		if h.bundles[i].tag == tag {
			return &h.bundles[i]
		}
	}
	return nil
}

// ---- the run ---------------------------------------------------------------------------------

const nAbsNow = int64(1000000000)

type nLogEntry struct {
	addr, tag int
	ok        bool
	seq       int // sequence number of the bundle handed to the CLA
}

type nRun struct {
	h      *nHist
	dir    string
	t0     bpv7.DtnTime // real DTN time that corresponds to cfg.now
	core   *Core
	clas   map[int]*nCLA
	mu     sync.Mutex
	count  map[[3]int]int // (CLA, tag, sequence number) -> Send calls so far
	log    []nLogEntry
	gate   func(addr, tag int, ok bool) // optional rendezvous inside Send, before answering
	panics []string
}

// nCLA is a mock convergence sender answering from the history's oracle. It embeds the shared
// verifMockCLA for identity/lifecycle and replaces Send: the answer depends on (CLA, bundle, attempt
// number of this concrete bundle), so that it does not matter in which order the core works through its pending bundles.
type nCLA struct {
	*verifMockCLA
	r    *nRun
	addr int
}

func nTagOf(b *bpv7.Bundle) int {
	// a bundle of the history carries its tag in the payload (it may carry a DTLSRBlock as well: relayed
	// link-state broadcasts); the node's own routing metadata bundles do not
	if pb, err := b.PayloadBlock(); err == nil {
		if d := pb.Value.(*bpv7.PayloadBlock).Data(); len(d) == 4 && d[0] == 0xC5 && d[3] == 0x5C {
			return int(d[1])
		}
	}
	if _, err := b.ExtensionBlock(bpv7.ExtBlockTypeProphetBlock); err == nil {
		return -1
	}
	if _, err := b.ExtensionBlock(bpv7.ExtBlockTypeDTLSRBlock); err == nil {
		return -1
	}
	return -2
}

func (m *nCLA) Send(b bpv7.Bundle) error {
	_ = verifBundleBytes(b) // serialise inside Send, like a real CLA
	tag := nTagOf(&b)
	if tag == -1 {
		// routing metadata bundles of PRoPHET/DTLSR: other properties' business; always delivered
		return nil
	}
	r := m.r
	r.mu.Lock()
	k := [2]int{m.addr, tag}
	// the attempt number counts per concrete bundle on the wire (tag and sequence number): several
	// submissions of one definition may wait in the store together
	ck := [3]int{m.addr, tag, int(b.PrimaryBlock.CreationTimestamp.SequenceNumber())}
	n := r.count[ck]
	r.count[ck] = n + 1
	ok := true
	if pat, has := r.h.oracle[k]; has && len(pat) > 0 {
		ok = pat[n%len(pat)] == '1'
	}
	gate := r.gate
	r.mu.Unlock()
	if gate != nil {
		gate(m.addr, tag, ok)
	}
	r.mu.Lock()
	r.log = append(r.log, nLogEntry{m.addr, tag, ok, ck[2]})
	r.mu.Unlock()
	if ok {
		return nil
	}
	return fmt.Errorf("verif: scripted send failure")
}

func (r *nRun) realTs(abs int64) bpv7.DtnTime {
	if abs == 0 {
		return 0
	}
	return bpv7.DtnTime(int64(r.t0) + abs - r.h.cfg.now)
}

// build creates the concrete bundle of a definition (a fresh value every time: the core mutates it).
func (r *nRun) build(d *nBundle) bpv7.Bundle {
	bl := bpv7.Builder().CRC(bpv7.CRC32).Source(d.src.real()).Destination(d.dst.real()).
		BundleCtrlFlags(0).Lifetime(uint64(d.lifetime))
	if d.ts == 0 {
		bl = bl.CreationTimestampEpoch()
	} else {
		bl = bl.CreationTimestampNow() // patched below: the builder refuses bundles whose lifetime is over
	}
	if d.age != nil {
		bl = bl.BundleAgeBlock(uint64(*d.age))
	}
	if d.hop != nil {
		bl = bl.HopCountBlock(d.hop[0])
	}
	if d.prev != nil {
		bl = bl.PreviousNodeBlock(d.prev.real())
	}
	if d.del {
		bl = bl.Canonical(bpv7.NewGenericExtensionBlock([]byte{1, 2, 3}, 250), bpv7.DeleteBundle)
	}
	if d.bs != nil {
		bl = bl.Canonical(bpv7.NewBinarySprayBlock(uint64(*d.bs)))
	}
	if d.lsTime != nil {
		bl = bl.Canonical(bpv7.NewDTLSRBlock(bpv7.DTLSRPeerData{ID: d.src.real(), Timestamp: r.realTs(*d.lsTime),
			Peers: map[bpv7.EndpointID]bpv7.DtnTime{}}))
	}
	bl = bl.PayloadBlock([]byte{0xC5, byte(d.tag), byte(d.tag >> 8), 0x5C})
	b, err := bl.Build()
	if err != nil {
		panic(fmt.Sprintf("verif: cannot build bundle %s: %v", d.str(), err))
	}
	b.PrimaryBlock.CreationTimestamp = bpv7.NewCreationTimestamp(r.realTs(d.ts), uint64(d.seq))
	if d.hop != nil {
		hb, _ := b.ExtensionBlock(bpv7.ExtBlockTypeHopCountBlock)
		hb.Value.(*bpv7.HopCountBlock).Count = uint8(d.hop[1])
	}
	return b
}

func (r *nRun) conf() RoutingConf {
	c := r.h.cfg
	inner := RoutingConf{Algorithm: c.algo,
		SprayConf:   SprayConfig{Multiplicity: uint64(c.l)},
		DTLSRConf:   DTLSRConfig{RecomputeTime: "1h", BroadcastTime: "1h", PurgeTime: "1h"},
		ProphetConf: ProphetConfig{PInit: 0, Beta: 0.25, Gamma: 0.98, AgeInterval: "1h"}}
	if !c.mule {
		return inner
	}
	var alts []string
	for _, s := range c.sensors {
		alts = append(alts, strconv.Itoa(s))
	}
	re := "^dtn://n(" + strings.Join(alts, "|") + ")/"
	if len(alts) == 0 {
		re = "^dtn://nosuchsensor/"
	}
	return RoutingConf{Algorithm: "sensor-mule",
		SensorMuleConf: SensorNetworkMuleConfig{Algorithm: &inner, SensorNodeRegex: re}}
}

func (r *nRun) innerAlgo() Algorithm {
	a := r.core.routing
	if m, ok := a.(*SensorNetworkMuleRouting); ok {
		a = m.algorithm
	}
	return a
}

// open starts a Core on the run's directory; periodic jobs are unregistered (the harness calls their
// bodies itself), routing oracles are injected.
func (r *nRun) open() error {
	c, err := verifNewCore(r.dir, nEid{r.h.cfg.self, 0}.real().String(), r.conf())
	if err != nil {
		return err
	}
	for _, j := range []string{"pending_bundles", "clean_store", "spray_and_wait_gc", "binary_spray_gc",
		"dtlsr_recompute", "dtlsr_purge", "dtlsr_broadcast"} {
		c.cron.Unregister(j)
	}
	r.core = c
	switch a := r.innerAlgo().(type) {
	case *Prophet:
		a.dataMutex.Lock()
		for _, pd := range r.h.cand {
			pe := pd[0].real()
			if a.peerPredictabilities[pe] == nil {
				a.peerPredictabilities[pe] = map[bpv7.EndpointID]float64{}
			}
			a.peerPredictabilities[pe][pd[1].real()] = 1.0
		}
		a.dataMutex.Unlock()
	case *DTLSR:
		a.dataMutex.Lock()
		for _, pd := range r.h.cand {
			a.routingTable[pd[1].real()] = pd[0].real()
		}
		a.dataMutex.Unlock()
	}
	return nil
}

func (r *nRun) exec(e nEvent) {
	defer func() {
		if x := recover(); x != nil {
			r.panics = append(r.panics, fmt.Sprint(x))
		}
	}()
	c := r.core
	switch e.kind {
	case 'S':
		b := r.build(r.h.bundle(e.tag))
		c.SendBundle(&b)
	case 'R':
		recv := bpv7.DtnNone()
		if e.recv != nil {
			recv = e.recv.real()
		}
		verifReceive(c, r.build(r.h.bundle(e.tag)), recv)
	case 'U':
		// = verifPeerUp / verifPeerDown (those take the concrete *verifMockCLA)
		m := r.clas[e.addr]
		c.claManager.Register(m)
		c.routing.ReportPeerAppeared(m)
		c.checkPendingBundles()
	case 'D':
		m := r.clas[e.addr]
		c.claManager.Unregister(m)
		c.routing.ReportPeerDisappeared(m)
	case 'T':
		if r.h.tickPause > 0 {
			time.Sleep(r.h.tickPause)
		}
		c.checkPendingBundles()
	case 'C':
		c.store.DeleteExpired()
	case 'X':
		nCloseCore(c)
		r.core = nil
		if err := r.open(); err != nil {
			panic("verif: reopen failed: " + err.Error())
		}
	}
}

// nCloseCore: Core.Close() plus the AgentManager, which Core.Close() leaves running — its goroutine keeps
// the whole Core (and the closed badger store with its memory tables) reachable; thousands of Core
// life-cycles in one process would otherwise add up to tens of gigabytes.
func nCloseCore(c *Core) {
	c.Close()
	_ = c.agentManager.Close()
}

func nEidList(es []bpv7.EndpointID) string {
	if len(es) == 0 {
		return "-"
	}
	var ss []string
	for _, e := range es {
		if a, ok := nEidFrom(e); ok {
			ss = append(ss, a.str())
		} else {
			ss = append(ss, "?"+e.String())
		}
	}
	sort.Strings(ss)
	return strings.Join(ss, "+")
}

// observe lists the send log since the last call, the store items of every bundle ID that can occur
// in this history and the spray bookkeeping.
func (r *nRun) observe() string {
	r.mu.Lock()
	lg := r.log
	r.log = nil
	r.mu.Unlock()
	sort.SliceStable(lg, func(i, j int) bool {
		if lg[i].tag != lg[j].tag {
			return lg[i].tag < lg[j].tag
		}
		if lg[i].addr != lg[j].addr {
			return lg[i].addr < lg[j].addr
		}
		return lg[i].seq < lg[j].seq
	})
	logS := "-"
	if len(lg) > 0 {
		var ss []string
		for _, l := range lg {
			ok := 0
			if l.ok {
				ok = 1
			}
			ss = append(ss, fmt.Sprintf("%d.%d.%d.%d", l.addr, l.tag, ok, l.seq))
		}
		logS = strings.Join(ss, ",")
	}

	// candidate IDs: every (source, time) of the universe with its own sequence number and every number the
	// IdKeeper can have handed out so far (SendBundle assigns 0, 1, 2, … per (source, time): one per submission)
	maxSeq := 3
	for _, e := range r.h.events {
		if e.kind == 'S' {
			maxSeq++
		}
	}
	type cand struct {
		key string
		id  bpv7.BundleID
	}
	var cands []cand
	seen := map[string]bool{}
	for i := range r.h.bundles {
		d := &r.h.bundles[i]
		seqs := []int{d.seq}
		for q := 0; q <= maxSeq; q++ {
			seqs = append(seqs, q)
		}
		for _, seq := range seqs {
			key := fmt.Sprintf("%s.%d.%d", d.src.str(), d.ts, seq)
			if seen[key] {
				continue
			}
			seen[key] = true
			cands = append(cands, cand{key, bpv7.BundleID{SourceNode: d.src.real(),
				Timestamp: bpv7.NewCreationTimestamp(r.realTs(d.ts), uint64(seq))}})
		}
	}
	sort.Slice(cands, func(i, j int) bool { return cands[i].key < cands[j].key })
	var items []string
	for _, cd := range cands {
		bi, err := r.core.store.QueryId(cd.id)
		if err != nil {
			continue
		}
		tag := -3
		if len(bi.Parts) > 0 {
			// Load fails with a validity error for a stored bundle whose lifetime is over, but the
			// parsed bundle is returned all the same
			if b, err := bi.Parts[0].Load(); err == nil || len(b.CanonicalBlocks) > 0 {
				tag = nTagOf(&b)
			}
		}
		pend := 0
		if bi.Pending {
			pend = 1
		}
		cons := ""
		if v, ok := bi.Properties["bundlepack/constraints"]; ok {
			m := v.(map[Constraint]bool)
			for _, cl := range []struct {
				c Constraint
				l string
			}{{DispatchPending, "d"}, {ForwardPending, "f"}, {ReassemblyPending_, "r"}, {Contraindicated, "c"}, {LocalEndpoint, "l"}} {
				if _, has := m[cl.c]; has {
					cons += cl.l
				}
			}
		}
		if cons == "" {
			cons = "-"
		}
		recv := "-"
		if v, ok := bi.Properties["bundlepack/receiver"]; ok {
			if e, ok := v.(bpv7.EndpointID); ok && e != bpv7.DtnNone() {
				if a, ok := nEidFrom(e); ok {
					recv = a.str()
				} else {
					recv = "?" + e.String()
				}
			}
		}
		edst := "-"
		if v, ok := bi.Properties["routing/epidemic/destination"]; ok {
			if e, ok := v.(bpv7.EndpointID); ok {
				if a, ok := nEidFrom(e); ok {
					edst = a.str()
				}
			}
		}
		lists := make([]string, 3)
		for i, algo := range []string{"epidemic", "prophet", "dtlsr"} {
			es, _ := bi.Properties["routing/"+algo+"/sent"].([]bpv7.EndpointID)
			lists[i] = nEidList(es)
		}
		items = append(items, fmt.Sprintf("%s|%d|%d|%s|%s|%s|%s|%s|%s", cd.key, tag, pend, cons, recv, edst,
			lists[0], lists[1], lists[2]))
	}
	itemS := "-"
	if len(items) > 0 {
		itemS = strings.Join(items, ",")
	}

	// in-memory spray bookkeeping
	var metas []string
	dump := func(data map[bpv7.BundleID]sprayMetaData) {
		for _, cd := range cands {
			if m, ok := data[cd.id]; ok {
				metas = append(metas, fmt.Sprintf("%s|%d|%s", cd.key, m.remainingCopies, nEidList(m.sent)))
			}
		}
	}
	switch a := r.innerAlgo().(type) {
	case *SprayAndWait:
		a.dataMutex.RLock()
		dump(a.bundleData)
		a.dataMutex.RUnlock()
	case *BinarySpray:
		a.dataMutex.RLock()
		dump(a.bundleData)
		a.dataMutex.RUnlock()
	}
	metaS := "-"
	if len(metas) > 0 {
		metaS = strings.Join(metas, ",")
	}
	return logS + "~" + itemS + "~" + metaS
}

// header renders everything of the line except the events.
func (h *nHist) header() string {
	var ps, bs, os_, cs []string
	for _, p := range h.peers {
		ps = append(ps, fmt.Sprintf("%d:%s", p.addr, p.eid.str()))
	}
	for _, b := range h.bundles {
		bs = append(bs, b.str())
	}
	var ks [][2]int
	for k := range h.oracle {
		ks = append(ks, k)
	}
	sort.Slice(ks, func(i, j int) bool {
		if ks[i][0] != ks[j][0] {
			return ks[i][0] < ks[j][0]
		}
		return ks[i][1] < ks[j][1]
	})
	for _, k := range ks {
		os_ = append(os_, fmt.Sprintf("%d.%d.%s", k[0], k[1], h.oracle[k]))
	}
	for _, c := range h.cand {
		cs = append(cs, c[0].str()+">"+c[1].str())
	}
	j := func(l []string) string {
		if len(l) == 0 {
			return "-"
		}
		return strings.Join(l, ";")
	}
	return fmt.Sprintf("%s cfg=%s peers=%s bundles=%s oracle=%s cand=%s", h.op, h.cfg.str(), j(ps), j(bs), j(os_), j(cs))
}

// nRunHist replays one history on a fresh store directory and returns its line.
func nRunHist(h *nHist, dir string) (line string) {
	_ = os.RemoveAll(dir)
	defer os.RemoveAll(dir)
	r := &nRun{h: h, dir: dir, clas: map[int]*nCLA{}, count: map[[3]int]int{}}
	r.t0 = bpv7.DtnTimeNow()
	net := &verifNet{}
	for _, p := range h.peers {
		r.clas[p.addr] = &nCLA{verifMockCLA: net.newCLA(fmt.Sprintf("a%d", p.addr), p.eid.real(), true), r: r, addr: p.addr}
	}
	if err := r.open(); err != nil {
		return "# " + h.op + " cannot open core: " + err.Error()
	}
	defer func() {
		if r.core != nil {
			func() {
				defer func() { _ = recover() }()
				nCloseCore(r.core)
			}()
		}
	}()
	var evs []string
	start := time.Now()
	for _, e := range h.events {
		if time.Since(start) > 45*time.Second {
			// the IdKeeper forgets (source, time) pairs older than 86.4 s: a history that ran this long
			// (overloaded machine) is not comparable any more
			return "# " + h.op + " history abandoned: too slow"
		}
		r.exec(e)
		if r.core == nil {
			evs = append(evs, e.str(h.cfg.now)+"~panic~-~-")
			break
		}
		o := r.observe()
		if len(r.panics) > 0 {
			fmt.Fprintf(os.Stderr, "verif: panic in %s: %s\n", h.op, strings.Join(r.panics, "; "))
			evs = append(evs, e.str(h.cfg.now)+"~panic~-~-")
			break
		}
		evs = append(evs, e.str(h.cfg.now)+"~"+o)
	}
	if h.tickPause > 0 && time.Since(start) > h.realTimeLimit {
		// a history in real time whose bundles are only alive for a while: when the machine was too slow for it,
		// a bundle may have expired legitimately - the history is not comparable with the model (whose clock stands
		// still) and is not emitted
		return "# " + h.op + " real-time history abandoned: too slow"
	}
	return h.header() + " ev=" + strings.Join(evs, "/")
}

// nRunAll replays the histories on `workers` goroutines (separate store directories) and writes the
// lines in the order of the histories.
func nRunAll(hs []*nHist, scratch string, out *os.File, budget time.Duration) (done int) {
	workers := runtime.NumCPU()
	if workers > 16 {
		workers = 16
	}
	if workers < 2 {
		workers = 2
	}
	lines := make([]string, len(hs))
	var next int64
	var mu sync.Mutex
	var wg sync.WaitGroup
	deadline := time.Now().Add(budget)
	for w := 0; w < workers; w++ {
		wg.Add(1)
		go func(w int) {
			defer wg.Done()
			for {
				mu.Lock()
				i := int(next)
				next++
				mu.Unlock()
				if i >= len(hs) || time.Now().After(deadline) {
					return
				}
				lines[i] = nRunHist(hs[i], filepath.Join(scratch, fmt.Sprintf("w%d", w)))
			}
		}(w)
	}
	wg.Wait()
	for _, l := range lines {
		if l != "" {
			fmt.Fprintln(out, l)
			done++
		}
	}
	return done
}

// ---- generators --------------------------------------------------------------------------------

const (
	nLifetime = int64(3600000)   // 1 h
	nLongLife = int64(604800000) // 7 d (clock-less bundles: see the note on bundle age in the driver)
)

func nP(x nEid) *nEid    { return &x }
func nI64(x int64) *int64 { return &x }
func nInt(x int) *int     { return &x }

// nFresh: a bundle created 1 s ago with one hour to live.
func nFresh(tag int, src, dst nEid) nBundle {
	return nBundle{tag: tag, src: src, ts: nAbsNow - 1000, dst: dst, lifetime: nLifetime}
}

// nAlphabet: every event over the given bundles and peers.
func nAlphabet(h *nHist, withRecv bool) []nEvent {
	var evs []nEvent
	for _, b := range h.bundles {
		// Domain of the histories: applications submit bundles of this node, peers deliver bundles that
		// originate elsewhere (a bundle of this node can only come back after it was transmitted; a
		// forged source on submit is refused, universe "refused" has a submit-only bundle for that).
		// Bundles with an old creation time are never submitted: IdKeeper forgets their (source, time)
		// entry at once (its clean-up threshold, D18/C14), which is not modelled.
		sub := b.src.node == h.cfg.self
		rcv := !sub
		switch b.mode {
		case 'S':
			sub, rcv = true, false
		case 'R':
			sub, rcv = false, true
		case 'B':
			sub, rcv = true, true
		}
		if sub && (b.ts == 0 || b.ts >= h.cfg.now-60000) {
			evs = append(evs, nEvent{kind: 'S', tag: b.tag})
		}
		if rcv {
			evs = append(evs, nEvent{kind: 'R', tag: b.tag})
			if withRecv {
				for _, p := range h.peers {
					evs = append(evs, nEvent{kind: 'R', tag: b.tag, recv: nP(p.eid)})
				}
			}
		}
	}
	for _, p := range h.peers {
		evs = append(evs, nEvent{kind: 'U', addr: p.addr}, nEvent{kind: 'D', addr: p.addr})
	}
	evs = append(evs, nEvent{kind: 'T'}, nEvent{kind: 'C'}, nEvent{kind: 'X'})
	return evs
}

// nExhaustive: all histories of exactly `depth` events over the alphabet whose first event changes
// the initial state (a leading peer-down / tick / restart is a no-op, the rest is a shorter history).
func nExhaustive(base *nHist, alpha []nEvent, depth int) []*nHist {
	var out []*nHist
	var rec func(prefix []nEvent)
	rec = func(prefix []nEvent) {
		if len(prefix) == depth {
			h := *base
			h.events = append([]nEvent(nil), prefix...)
			out = append(out, &h)
			return
		}
		for _, e := range alpha {
			if len(prefix) == 0 && (e.kind == 'D' || e.kind == 'T' || e.kind == 'C' || e.kind == 'X') {
				continue
			}
			rec(append(prefix, e))
		}
	}
	rec(nil)
	return out
}

// nRandom: one random history of the given length; events are weighted towards the interesting ones.
func nRandom(base *nHist, alpha []nEvent, n int, rng *verifRng) *nHist {
	h := *base
	for i := 0; i < n; i++ {
		h.events = append(h.events, alpha[rng.intn(len(alpha))])
	}
	return &h
}

// nOraclePatterns: scripted answers per (CLA, bundle).
func nRandomOracle(h *nHist, rng *verifRng, failBias int) map[[2]int]string {
	o := map[[2]int]string{}
	for _, p := range h.peers {
		for _, b := range h.bundles {
			var sb strings.Builder
			for i := 0; i < 8; i++ {
				if rng.intn(100) < failBias {
					sb.WriteByte('0')
				} else {
					sb.WriteByte('1')
				}
			}
			o[[2]int{p.addr, b.tag}] = sb.String()
		}
	}
	return o
}

// nInterleave merges the per-job lists round-robin, so that a run cut short by its time budget still
// covers every job.
func nInterleave(lists [][]*nHist) []*nHist {
	var out []*nHist
	for i := 0; ; i++ {
		any := false
		for _, l := range lists {
			if i < len(l) {
				out = append(out, l[i])
				any = true
			}
		}
		if !any {
			return out
		}
	}
}

// nBudget: wall-clock budget of the replay phase (the remaining histories are dropped when it is
// used up: on a loaded machine the check gets smaller instead of slower).
func nBudget(quick, thorough time.Duration) time.Duration {
	if s := os.Getenv("VERIF_NODE_BUDGET"); s != "" {
		if d, err := time.ParseDuration(s); err == nil {
			return d
		}
	}
	if verifThorough() {
		return thorough
	}
	return quick
}
