package routing

// Correspondence harness for C05 (store-carry-forward). See verif_node_test.go for the machinery and
// /verif/lean/Driver/C05.lean for the judgement of the lines.

import (
	"fmt"
	"os"
	"path/filepath"
	"strings"
	"sync"
	"testing"
	"time"

	"github.com/dtn7/dtn7-go/pkg/bpv7"
)

var (
	c05Self  = nEid{1, 0}
	c05Peers = []nPeer{{1, nEid{2, 0}}, {2, nEid{3, 0}}}
)

// c05Universes: pairs of bundles exercising the clauses of the property.
func c05Universe(kind string) []nBundle {
	far := nEid{5, 0}
	switch kind {
	case "plain":
		// b1: originated here, destination not a neighbour; b2: relayed, came from peer 1, for peer 2's node
		b1 := nFresh(1, c05Self, far)
		b1.mode = 'B' // also comes back from the network
		b2 := nFresh(2, nEid{7, 0}, nEid{3, 1})
		b2.prev = nP(nEid{2, 0})
		b2.hop = &[2]int{8, 2}
		return []nBundle{b1, b2}
	case "same-ms":
		// two bundles of this node created in the same millisecond with the builder's sequence number 0
		b1 := nFresh(1, c05Self, far)
		b2 := nFresh(2, c05Self, nEid{3, 0})
		return []nBundle{b1, b2}
	case "zero-time":
		// b1: clock-less source (creation time 0, age block); b2: lifetime already over
		b1 := nBundle{tag: 1, src: c05Self, ts: 0, dst: far, lifetime: nLongLife, age: nI64(1000)}
		b2 := nFresh(2, nEid{7, 0}, nEid{3, 0})
		b2.ts = nAbsNow - 2*nLifetime
		b2.prev = nP(nEid{2, 0})
		return []nBundle{b1, b2}
	case "zero-short":
		// b1: clock-less source, a lifetime of 12 s (by age), received age 0; b2 as in "zero-time"
		b1 := nBundle{tag: 1, src: c05Self, ts: 0, dst: far, lifetime: 12000, age: nI64(0)}
		b2 := nFresh(2, nEid{7, 0}, nEid{3, 0})
		b2.ts = nAbsNow - 2*nLifetime
		b2.prev = nP(nEid{2, 0})
		return []nBundle{b1, b2}
	case "from-dest":
		// b2 came from its own destination node (peer 2 relayed a bundle for a service on its node that it could
		// not deliver itself): the epidemic gate (known finding) holds it back while only that peer is connected
		b1 := nFresh(1, c05Self, far)
		b2 := nFresh(2, nEid{7, 0}, nEid{3, 1})
		b2.prev = nP(nEid{3, 0})
		return []nBundle{b1, b2}
	case "many":
		// forty relayed bundles for the far destination, all of them waiting at once
		var bs []nBundle
		for k := 1; k <= 40; k++ {
			b := nFresh(k, nEid{7, 0}, far)
			b.seq = k
			b.prev = nP(nEid{3, 0})
			bs = append(bs, b)
		}
		return bs
	case "refused":
		// b1: hop limit reached; b2: unknown block demanding deletion; relayed clock-less bundle
		b1 := nFresh(1, nEid{7, 0}, far)
		b1.hop = &[2]int{3, 3}
		b1.mode = 'B' // submitted with a foreign source: refused
		b2 := nBundle{tag: 2, src: nEid{8, 0}, ts: 0, dst: nEid{2, 0}, lifetime: nLongLife, age: nI64(5000), del: false}
		b2.prev = nP(nEid{3, 0})
		return []nBundle{b1, b2}
	}
	panic("unknown universe " + kind)
}

func c05Base(algo string, mule bool, universe string) *nHist {
	h := &nHist{op: "H." + algo, cfg: nCfg{self: 1, algo: algo, mule: mule, l: 3, now: nAbsNow},
		peers: c05Peers, bundles: c05Universe(universe)}
	if mule {
		h.op = "H.mule-" + algo
		h.cfg.sensors = []int{2}
	}
	if algo == "prophet" || algo == "dtlsr" {
		// the routing oracle: peer 1 is a forwarder for the far destination
		h.cand = [][2]nEid{{nEid{2, 0}, nEid{5, 0}}}
	}
	return h
}

// c05Conc: two transmissions of one bundle fail at the same moment. Both CLAs are chosen by the
// algorithm in one forward(), both answer with an error, so two goroutines run ReportFailure for the
// same store item. With `forced` the schedule point between the read and the write-back of the sent
// list holds each goroutine until the other one has read as well (or 300 ms passed: a schedule that the
// code excludes, e.g. by a mutex, simply does not occur). Reported: the sent list afterwards.
func c05Conc(algo string, forced bool, scratch string, round int) string {
	return c05ConcK(algo, forced, scratch, round, 2)
}

// c05ConcK: k transmissions of one bundle fail at the same moment (k peers, all of them fail).
func c05ConcK(algo string, forced bool, scratch string, round int, k int) string {
	h := c05Base(algo, false, "plain")
	h.op = "CONC." + algo
	h.bundles = h.bundles[:1]
	h.oracle = map[[2]int]string{}
	h.cand = nil
	h.events = nil
	h.peers = nil
	var failedNames []string
	for a := 1; a <= k; a++ {
		h.peers = append(h.peers, nPeer{a, nEid{a + 1, 0}})
		h.oracle[[2]int{a, 1}] = "0"
		h.cand = append(h.cand, [2]nEid{{a + 1, 0}, {5, 0}})
		h.events = append(h.events, nEvent{kind: 'U', addr: a})
		failedNames = append(failedNames, fmt.Sprintf("%d.0", a+1))
	}
	if k > 3 {
		// peer 5 would be the destination's node: use another far destination
		for i := range h.cand {
			h.cand[i][1] = nEid{9, 0}
		}
		h.bundles[0].dst = nEid{9, 0}
	}
	h.events = append(h.events, nEvent{kind: 'S', tag: 1})
	dir := filepath.Join(scratch, fmt.Sprintf("conc-%s-%v-%d-%d", algo, forced, round, k))
	defer os.RemoveAll(dir)
	r := &nRun{h: h, dir: dir, clas: map[int]*nCLA{}, count: map[[3]int]int{}}
	r.t0 = bpv7.DtnTimeNow()
	net := &verifNet{}
	for _, p := range h.peers {
		r.clas[p.addr] = &nCLA{verifMockCLA: net.newCLA(fmt.Sprintf("a%d", p.addr), p.eid.real(), true), r: r, addr: p.addr}
	}
	if err := r.open(); err != nil {
		return "# CONC cannot open core: " + err.Error()
	}
	defer func() { nCloseCore(r.core) }()
	if forced && k == 3 {
		// a directed schedule for three failure reports: the first report is inside its critical section while the
		// second one queues for it; when the second one is inside, the third transmission fails and its report
		// arrives while the second report is between its read and its write. With one mutex for all reports the
		// third one waits; a lock that lets it through loses an update.
		var mu sync.Mutex
		arrived := 0
		release3 := make(chan struct{})
		verifSetHook(func(name string) {
			if !strings.HasSuffix(name, ".ReportFailure.read") {
				return
			}
			mu.Lock()
			arrived++
			n := arrived
			mu.Unlock()
			switch n {
			case 1:
				time.Sleep(60 * time.Millisecond)
			case 2:
				close(release3)
				time.Sleep(120 * time.Millisecond)
			}
		})
		defer verifSetHook(nil)
		r.gate = func(addr, tag int, ok bool) {
			if addr == 3 {
				select {
				case <-release3:
				case <-time.After(2 * time.Second):
				}
			}
		}
	} else if forced {
		var mu sync.Mutex
		arrived := 0
		both := make(chan struct{})
		verifSetHook(func(name string) {
			if !strings.HasSuffix(name, ".ReportFailure.read") {
				return
			}
			mu.Lock()
			arrived++
			if arrived == k {
				close(both)
			}
			mu.Unlock()
			select {
			case <-both:
			case <-time.After(300 * time.Millisecond):
			}
		})
		defer verifSetHook(nil)
	} else {
		// no hook: release both failing Sends together and let the scheduler decide
		var wg sync.WaitGroup
		wg.Add(k)
		r.gate = func(addr, tag int, ok bool) {
			wg.Done()
			wg.Wait()
		}
	}
	for _, e := range h.events {
		r.exec(e)
	}
	if len(r.panics) > 0 {
		return "CONC." + algo + " panic"
	}
	bi, err := r.core.store.QueryId(bpv7.BundleID{SourceNode: h.bundles[0].src.real(),
		Timestamp: bpv7.NewCreationTimestamp(r.realTs(h.bundles[0].ts), 0)})
	if err != nil {
		return "CONC." + algo + " item-missing"
	}
	es, _ := bi.Properties["routing/"+algo+"/sent"].([]bpv7.EndpointID)
	f := 0
	if forced {
		f = 1
	}
	r.mu.Lock()
	nlog := len(r.log)
	r.mu.Unlock()
	return fmt.Sprintf("CONC.%s forced=%d k=%d sends=%d failed=%s sent=%s", algo, f, k, nlog, strings.Join(failedNames, "+"), nEidList(es))
}

// c05NewRun: a run with its mock CLAs and an open core on a fresh store directory.
func c05NewRun(h *nHist, dir string) (*nRun, error) {
	r := &nRun{h: h, dir: dir, clas: map[int]*nCLA{}, count: map[[3]int]int{}}
	r.t0 = bpv7.DtnTimeNow()
	net := &verifNet{}
	for _, p := range h.peers {
		r.clas[p.addr] = &nCLA{verifMockCLA: net.newCLA(fmt.Sprintf("a%d", p.addr), p.eid.real(), true), r: r, addr: p.addr}
	}
	return r, r.open()
}

// c05Item: the stored item of the first bundle with this tag among the candidate sequence numbers
// (present, pending, constraints as letters).
func (r *nRun) c05Item(tag int) (present, pending bool, cons string) {
	d := r.h.bundle(tag)
	for seq := 0; seq < 8; seq++ {
		bi, err := r.core.store.QueryId(bpv7.BundleID{SourceNode: d.src.real(),
			Timestamp: bpv7.NewCreationTimestamp(r.realTs(d.ts), uint64(seq))})
		if err != nil || len(bi.Parts) == 0 {
			continue
		}
		if b, err := bi.Parts[0].Load(); (err == nil || len(b.CanonicalBlocks) > 0) && nTagOf(&b) == tag {
			cons = ""
			if v, ok := bi.Properties["bundlepack/constraints"]; ok {
				m := v.(map[Constraint]bool)
				for _, cl := range []struct {
					c Constraint
					l string
				}{{DispatchPending, "d"}, {ForwardPending, "f"}, {ReassemblyPending_, "r"}, {Contraindicated, "c"}, {LocalEndpoint, "l"}} {
					if _, has := m[cl.c]; has {
						cons += cl.l
					}
				}
			}
			if cons == "" {
				cons = "-"
			}
			return true, bi.Pending, cons
		}
	}
	return false, false, "-"
}

// c05Mid: the persistent record of a bundle at the moment one of its transmissions is in progress (a
// convergence layer's Send has been entered and has not answered yet): whatever happens to the process
// now, this record is what the next start finds. scen: A = first transmission, straight from the
// submission; B = a retry of a waiting bundle when a peer appears; C = a retry by the periodic job after
// a failed first attempt. Reported: the record inside Send, and after the (failing) Send returned.
func c05Mid(algo string, scen string, scratch string) string {
	h := c05Base(algo, false, "plain")
	h.op = "MID." + algo
	h.bundles = h.bundles[:1]
	h.oracle = map[[2]int]string{{1, 1}: "0"}
	dir := filepath.Join(scratch, fmt.Sprintf("mid-%s-%s", algo, scen))
	defer os.RemoveAll(dir)
	r, err := c05NewRun(h, dir)
	if err != nil {
		return "# MID cannot open core: " + err.Error()
	}
	defer func() { nCloseCore(r.core) }()
	type rec struct {
		present, pending bool
		cons             string
	}
	var mids []rec
	var mu sync.Mutex
	arm := func() {
		r.gate = func(addr, tag int, ok bool) {
			if tag != 1 {
				return
			}
			p, pe, c := r.c05Item(1)
			mu.Lock()
			mids = append(mids, rec{p, pe, c})
			mu.Unlock()
		}
	}
	var evs []nEvent
	switch scen {
	case "A":
		evs = []nEvent{{kind: 'U', addr: 1}, {kind: 'S', tag: 1}}
	case "B":
		evs = []nEvent{{kind: 'S', tag: 1}, {kind: 'U', addr: 1}}
	default:
		evs = []nEvent{{kind: 'U', addr: 1}, {kind: 'S', tag: 1}, {kind: 'T'}}
	}
	arm()
	for _, e := range evs {
		r.exec(e)
	}
	r.gate = nil
	if len(r.panics) > 0 {
		return "MID." + algo + " panic"
	}
	b2i := func(b bool) int {
		if b {
			return 1
		}
		return 0
	}
	var ms []string
	for _, m := range mids {
		ms = append(ms, fmt.Sprintf("%d|%d|%s", b2i(m.present), b2i(m.pending), m.cons))
	}
	if len(ms) == 0 {
		ms = []string{"-"}
	}
	p, pe, c := r.c05Item(1)
	return fmt.Sprintf("MID.%s scen=%s during=%s after=%d|%d|%s", algo, scen, strings.Join(ms, ","), b2i(p), b2i(pe), c)
}

// c05Overlap: a peer appears while another run of the pending-bundles job is still busy (blocked inside
// the Send of a slow convergence layer): the run started for the new peer must offer it the waiting
// bundles all the same. b2 (tag 2) waits for its destination node (peer 2), b1 (tag 1) is an own bundle
// for a far destination. Run 1 (periodic job, goroutine of its own) blocks in Send(b1 -> CLA 1); then peer 2
// appears (handler: register, ReportPeerAppeared, checkPendingBundles). Reported: which bundles were handed
// to CLA 2 by the time that call returned.
func c05Overlap(algo string, scratch string) string {
	h := c05Base(algo, false, "same-ms")
	h.op = "OVL." + algo
	h.oracle = map[[2]int]string{}
	dir := filepath.Join(scratch, "ovl-"+algo)
	defer os.RemoveAll(dir)
	r, err := c05NewRun(h, dir)
	if err != nil {
		return "# OVL cannot open core: " + err.Error()
	}
	defer func() { nCloseCore(r.core) }()
	r.exec(nEvent{kind: 'S', tag: 1})
	r.exec(nEvent{kind: 'S', tag: 2})
	entered := make(chan struct{})
	release := make(chan struct{})
	var once sync.Once
	r.gate = func(addr, tag int, ok bool) {
		if addr == 1 {
			first := false
			once.Do(func() { first = true; close(entered) })
			if first {
				select {
				case <-release:
				case <-time.After(20 * time.Second):
				}
			}
		}
	}
	// peer 1 (a forwarder) is connected; the periodic job starts a run
	m1 := r.clas[1]
	r.core.claManager.Register(m1)
	r.core.routing.ReportPeerAppeared(m1)
	done1 := make(chan struct{})
	go func() {
		defer close(done1)
		defer func() { _ = recover() }()
		r.core.checkPendingBundles()
	}()
	blocked := true
	select {
	case <-entered:
	case <-time.After(10 * time.Second):
		blocked = false // nothing was handed to CLA 1 (e.g. the algorithm did not choose it)
	}
	// peer 2 appears now
	done2 := make(chan struct{})
	go func() {
		defer close(done2)
		defer func() { _ = recover() }()
		r.exec(nEvent{kind: 'U', addr: 2})
	}()
	returned := true
	select {
	case <-done2:
	case <-time.After(15 * time.Second):
		returned = false
	}
	r.mu.Lock()
	direct, other := 0, 0
	for _, l := range r.log {
		if l.addr == 2 && l.tag == 2 {
			direct = 1
		}
		if l.addr == 2 && l.tag == 1 {
			other = 1
		}
	}
	r.mu.Unlock()
	close(release)
	<-done1
	<-done2
	r.gate = nil
	b2i := func(b bool) int {
		if b {
			return 1
		}
		return 0
	}
	return fmt.Sprintf("OVL.%s blocked=%d returned=%d direct=%d other=%d panics=%d", algo, b2i(blocked), b2i(returned), direct, other, len(r.panics))
}

// c05Sentinels: short directed histories that run first (the replay phase has a time budget): one per
// clause and input class of the property, for every algorithm.
func c05Sentinels(algos []struct {
	name string
	mule bool
}, only string) []*nHist {
	ev := func(s string) []nEvent {
		var out []nEvent
		for _, f := range strings.Fields(s) {
			e := nEvent{kind: f[0]}
			if len(f) > 1 {
				fmt.Sscanf(f[1:], "%d", &e.tag)
				e.addr = e.tag
			}
			out = append(out, e)
		}
		return out
	}
	type sent struct{ universe, events, pat string }
	list := []sent{
		{"zero-time", "S1 C T U1 C T X C T", ""},      // clock-less bundle across clean ticks and a restart
		{"zero-time", "R2 C U1 U2 T", ""},             // expired bundle is swept
		{"same-ms", "S1 S2 T U2 T X T", ""},           // two submissions of one millisecond
		{"plain", "R2 R2 R2 T U2", ""},                // repeated reception of a waiting bundle, then its destination
		{"plain", "S1 R1 T U1 T", ""},                 // own bundle comes back before it was forwarded
		{"plain", "U1 S1 T T X U1 T U2 T", ""},        // failures and retries, restart
		{"plain", "U1 U2 R2 D2 R2 U2", ""},            // direct delivery, failure, redelivery
		{"refused", "U1 R1 R2 S1 T C", ""},            // hop limit, refused submit
		{"from-dest", "R2 U2 T U1 T", ""},             // a bundle that came from its destination node
		// numbers 0 and 2 of one (source, time) wait in the store, number 1 was delivered; restart; two more
		// submissions: neither may take a stored bundle's number (every transmission succeeds)
		{"same-ms", "S1 U2 S2 D2 S1 X S1 S1 T U1 T", "1"},
		// one forwarding attempt with a mixed outcome (peer 1 takes the bundle, peer 2 fails): the failed peer
		// must be offered the bundle again
		{"plain", "U1 U2 S1 T T D2 U2 T", "mixed"},
		// a clock-less bundle (lifetime 12 s by age) whose transmissions keep failing is retried nine times, 300 ms
		// of real time apart: after 3 s it is still alive and must still be stored (an age that is accumulated
		// wrongly from retry to retry would have expired it). Epidemic routing only (real time).
		{"zero-short", "U1 S1 T T T T T T T T T", "slow"},
	}
	// forty bundles wait in the store when the first peer appears: every one of them is offered, however many wait
	{
		many := ""
		for k := 1; k <= 40; k++ {
			many += fmt.Sprintf("R%d ", k)
		}
		list = append(list, sent{"many", many + "U1 T T T", ""})
	}
	var out []*nHist
	for _, a := range algos {
		if only != "" && only != a.name {
			continue
		}
		for i, s := range list {
			if s.pat == "slow" && (a.name != "epidemic" || a.mule) {
				continue
			}
			h := c05Base(a.name, a.mule, s.universe)
			if s.pat == "slow" {
				h.tickPause = 300 * time.Millisecond
				h.realTimeLimit = 4500 * time.Millisecond // the bundle lives 12 s
			}
			// first attempts fail, later ones succeed (and the other way round for the second half)
			h.oracle = map[[2]int]string{}
			for _, p := range h.peers {
				for _, b := range h.bundles {
					pat := "0011"
					if (i+p.addr+b.tag)%2 == 1 {
						pat = "10"
					}
					switch s.pat {
					case "":
					case "mixed":
						pat = []string{"", "1", "0011"}[p.addr]
					case "slow":
						pat = "0"
					default:
						pat = s.pat
					}
					h.oracle[[2]int{p.addr, b.tag}] = pat
				}
			}
			h.events = ev(s.events)
			out = append(out, h)
		}
	}
	return out
}

func TestVerifC05(t *testing.T) {
	outPath := os.Getenv("VERIF_OUT")
	if outPath == "" {
		t.Skip("VERIF_OUT not set")
	}
	scratch := filepath.Join(os.Getenv("VERIF_SCRATCH"), "c05")
	if os.Getenv("VERIF_SCRATCH") == "" {
		scratch = filepath.Join(os.TempDir(), fmt.Sprintf("verif-c05-%d", os.Getpid()))
	}
	_ = os.MkdirAll(scratch, 0o700)
	defer os.RemoveAll(scratch)
	out, err := os.Create(outPath)
	if err != nil {
		t.Fatal(err)
	}
	defer out.Close()
	seed := verifSeed()
	rng := &verifRng{s: seed*7919 + 5}
	thorough := verifThorough()

	// concurrent failure reports first (the schedule hook is process-wide, nothing else runs yet)
	for _, algo := range []string{"epidemic", "prophet"} {
		rounds := 3
		if thorough {
			rounds = 20
		}
		for i := 0; i < rounds; i++ {
			fmt.Fprintln(out, c05Conc(algo, true, scratch, i))
			fmt.Fprintln(out, c05Conc(algo, false, scratch, i))
			// three and four simultaneous failures (a lock that is only right for two would pass the lines above)
			fmt.Fprintln(out, c05ConcK(algo, false, scratch, i, 3))
			fmt.Fprintln(out, c05ConcK(algo, false, scratch, i, 4))
			fmt.Fprintln(out, c05ConcK(algo, true, scratch, i, 3))
		}
	}

	// the persistent record while a transmission is in progress, and a peer appearing during another run
	for _, algo := range []string{"epidemic", "spray", "binary_spray", "prophet", "dtlsr"} {
		for _, scen := range []string{"A", "B", "C"} {
			fmt.Fprintln(out, c05Mid(algo, scen, scratch))
		}
		fmt.Fprintln(out, c05Overlap(algo, scratch))
	}

	var hs []*nHist
	type job struct {
		algo     string
		mule     bool
		universe string
		depth    int // exhaustive depth (0 = none)
		random   int // number of random histories
		length   int // their length
	}
	var jobs []job
	only := os.Getenv("VERIF_C05_ONLY") // development aid: restrict to one algorithm
	algos := []struct {
		name string
		mule bool
	}{{"epidemic", false}, {"spray", false}, {"binary_spray", false}, {"prophet", false}, {"dtlsr", false}, {"epidemic", true}}
	for ai, a := range algos {
		if only != "" && only != a.name {
			continue
		}
		for ui, u := range []string{"plain", "same-ms", "zero-time", "refused"} {
			d := 2
			if ai == 0 && ui == 0 {
				d = 3
			}
			r, l := 6, 14
			if thorough {
				d++
				r, l = 40, 40
			}
			jobs = append(jobs, job{a.name, a.mule, u, d, r, l})
		}
	}
	var perJob [][]*nHist
	for _, j := range jobs {
		var hs []*nHist
		base := c05Base(j.algo, j.mule, j.universe)
		alpha := nAlphabet(base, j.mule)
		// exhaustive part: one oracle per job (drawn from the seed), failures frequent
		b1 := *base
		b1.oracle = nRandomOracle(&b1, rng, 45)
		if j.depth > 0 {
			hs = append(hs, nExhaustive(&b1, alpha, j.depth)...)
		}
		for i := 0; i < j.random; i++ {
			b2 := *base
			b2.oracle = nRandomOracle(&b2, rng, 20+rng.intn(50))
			n := j.length
			if i%3 == 2 {
				n = 40
			}
			hs = append(hs, nRandom(&b2, alpha, n, rng))
		}
		perJob = append(perJob, hs)
	}
	hs = append(c05Sentinels(algos, only), nInterleave(perJob)...)
	t0 := time.Now()
	n := nRunAll(hs, scratch, out, nBudget(80*time.Second, 12*time.Minute))
	fmt.Fprintf(out, "# c05 histories=%d of %d wall=%.1fs seed=%d\n", n, len(hs), time.Since(t0).Seconds(), seed)
}
