package routing

// Correspondence harness for C06 (attached to the package with `go test -overlay`; never part of /repo).
// Writes one observation per line to $VERIF_OUT; see /verif/lean/Driver/C06.lean for the format.
//
//   hc  <limit> <count> <incResult> <countAfterInc> <exceededAfter> <countAfterDec>
//        the bpv7.HopCountBlock methods in the order Core.forward uses them, whole 0..255 square
//   fwd <id> <node> <algo> <known> <acc> <mem> <runs> <txs> <clean>
//        one bundle through a real Core: accepted bundle (structural dump), every forward run
//        (reception = run 0, every checkPendingBundles = one more run) with the residence time
//        bracketed by the harness' own clock readings, every bundle handed to a mock CLA

import (
	"bufio"
	"bytes"
	"encoding/json"
	"errors"
	"fmt"
	"os"
	"path/filepath"
	"sort"
	"strconv"
	"strings"
	"sync"
	"testing"
	"time"

	"github.com/hashicorp/go-multierror"

	"github.com/dtn7/dtn7-go/pkg/bpv7"
)

const (
	c06Node = "dtn://verif-node/"
	c06Src  = "dtn://src/"
	c06Dst  = "dtn://dst/"
)

// ---- structural dump -----------------------------------------------------------------------------

func c06Value(cb *bpv7.CanonicalBlock) string {
	switch v := cb.Value.(type) {
	case *bpv7.HopCountBlock:
		return fmt.Sprintf("h%d.%d", v.Limit, v.Count)
	case *bpv7.BundleAgeBlock:
		return fmt.Sprintf("a%d", v.Age())
	case *bpv7.PreviousNodeBlock:
		return "p" + verifHex([]byte(v.Endpoint().String()))
	case *bpv7.PayloadBlock:
		return "d" + verifHex(v.Data())
	case *bpv7.GenericExtensionBlock:
		data, _ := v.MarshalBinary()
		return "o" + verifHex(data)
	default:
		var buf bytes.Buffer
		_ = bpv7.GetExtensionBlockManager().WriteBlock(cb.Value, &buf)
		return "o" + verifHex(buf.Bytes())
	}
}

// c06Dump: <primary hex>/<creation ms>/<lifetime ms>/<bundle flags>/<type>:<num>:<flags>:<crc>:<value>,...
func c06Dump(b *bpv7.Bundle, primaryRaw []byte) string {
	if primaryRaw == nil {
		var buf bytes.Buffer
		pb := b.PrimaryBlock
		_ = pb.MarshalCbor(&buf)
		primaryRaw = buf.Bytes()
	}
	var blocks []string
	for i := range b.CanonicalBlocks {
		cb := &b.CanonicalBlocks[i]
		blocks = append(blocks, fmt.Sprintf("%d:%d:%d:%d:%s", cb.TypeCode(), cb.BlockNumber,
			uint64(cb.BlockControlFlags), uint64(cb.CRCType), c06Value(cb)))
	}
	bl := "-"
	if len(blocks) > 0 {
		bl = strings.Join(blocks, ",")
	}
	return fmt.Sprintf("%s/%d/%d/%d/%s", verifHex(primaryRaw), uint64(b.PrimaryBlock.CreationTimestamp.DtnTime()),
		b.PrimaryBlock.Lifetime, uint64(b.PrimaryBlock.BundleControlFlags), bl)
}

// c06CborSkip returns the end of the (definite-length) CBOR item starting at pos, or -1.
func c06CborSkip(d []byte, pos int) int {
	if pos >= len(d) {
		return -1
	}
	maj, ai := d[pos]>>5, d[pos]&0x1f
	pos++
	var n uint64
	switch {
	case ai < 24:
		n = uint64(ai)
	case ai == 24, ai == 25, ai == 26, ai == 27:
		w := 1 << (ai - 24)
		if pos+w > len(d) {
			return -1
		}
		for i := 0; i < w; i++ {
			n = n<<8 | uint64(d[pos+i])
		}
		pos += w
	default:
		return -1
	}
	switch maj {
	case 0, 1, 7:
		return pos
	case 2, 3:
		if uint64(len(d)-pos) < n {
			return -1
		}
		return pos + int(n)
	case 4, 5:
		if maj == 5 {
			n *= 2
		}
		for i := uint64(0); i < n; i++ {
			if pos = c06CborSkip(d, pos); pos < 0 {
				return -1
			}
		}
		return pos
	case 6:
		return c06CborSkip(d, pos)
	}
	return -1
}

// c06Parse parses what a mock CLA got. The structure is returned even if CheckValid complains;
// valid reports CheckValid's verdict with the (time dependent) lifetime clause left out.
func c06Parse(data []byte) (b bpv7.Bundle, primaryRaw []byte, valid bool, ok bool) {
	defer func() {
		if r := recover(); r != nil {
			ok = false
		}
	}()
	err := b.UnmarshalCbor(bufio.NewReader(bytes.NewReader(data)))
	if len(b.CanonicalBlocks) == 0 {
		return b, nil, false, false
	}
	if len(data) < 2 || data[0] != 0x9f {
		return b, nil, false, false
	}
	end := c06CborSkip(data, 1)
	if end < 0 {
		return b, nil, false, false
	}
	primaryRaw = data[1:end]
	valid = true
	if err != nil {
		var me *multierror.Error
		if errors.As(err, &me) {
			for _, e := range me.Errors {
				if !strings.Contains(e.Error(), "Lifetime is exceeded") {
					valid = false
				}
			}
		} else {
			// a decoding error after at least one canonical block
			return b, primaryRaw, false, false
		}
	}
	return b, primaryRaw, valid, true
}

// ---- scenarios -----------------------------------------------------------------------------------

type c06Extra struct {
	typ   uint64
	flags bpv7.BlockControlFlags
	data  []byte
}

type c06Scen struct {
	id      int
	hasHop  bool
	limit   uint8
	count   uint8
	hasAge  bool
	age     uint64
	hasPrev bool
	prev    string
	extras  []c06Extra
	ctZero  bool
	ctAgo   time.Duration // creation time = now - ctAgo (non-zero creation time)
	life    uint64        // ms
	pcrc    bpv7.CRCType
	bflags  bpv7.BundleControlFlags
	shuffle bool // canonical blocks not in block number order
	sparse  bool // block numbers not contiguous
	payload []byte
	spray   uint64 // > 0: a binary spray block with that many copies (binary_spray batches only)
	rs      uint64 // per-scenario random stream
	note    string
}

type c06Batch struct {
	name   string
	algo   string
	peers  int
	gaps   []time.Duration // sleep before retry k (k = 1..len)
	scens  []c06Scen
	lastOk bool // the last run's sends succeed
	direct bool // the first peer IS the destination node: senderForDestination, deleteAfterwards = true
}

func (s *c06Scen) build(now time.Time) bpv7.Bundle {
	r := &verifRng{s: s.rs}
	var ct bpv7.CreationTimestamp
	if s.ctZero {
		ct = bpv7.NewCreationTimestamp(bpv7.DtnTimeEpoch, uint64(s.id))
	} else {
		ct = bpv7.NewCreationTimestamp(bpv7.DtnTimeFromTime(now.Add(-s.ctAgo)), uint64(s.id))
	}
	pb := bpv7.NewPrimaryBlock(s.bflags, bpv7.MustNewEndpointID(c06Dst), bpv7.MustNewEndpointID(c06Src), ct, s.life)
	pb.SetCRCType(s.pcrc)

	var blocks []bpv7.CanonicalBlock
	add := func(flags bpv7.BlockControlFlags, v bpv7.ExtensionBlock) {
		cb := bpv7.NewCanonicalBlock(0, flags, v)
		cb.SetCRCType(bpv7.CRCType(r.intn(3)))
		blocks = append(blocks, cb)
	}
	if s.hasHop {
		add(bpv7.BlockControlFlags(r.intn(2)), &bpv7.HopCountBlock{Limit: s.limit, Count: s.count})
	}
	if s.hasAge {
		add(bpv7.BlockControlFlags(r.intn(2)), bpv7.NewBundleAgeBlock(s.age))
	}
	if s.hasPrev {
		add(bpv7.BlockControlFlags(r.intn(2)), bpv7.NewPreviousNodeBlock(bpv7.MustNewEndpointID(s.prev)))
	}
	for _, e := range s.extras {
		add(e.flags, bpv7.NewGenericExtensionBlock(e.data, e.typ))
	}
	if s.spray > 0 {
		add(0, bpv7.NewBinarySprayBlock(s.spray))
	}
	// order and numbering of the extension blocks
	if s.shuffle {
		for i := len(blocks) - 1; i > 0; i-- {
			j := r.intn(i + 1)
			blocks[i], blocks[j] = blocks[j], blocks[i]
		}
	}
	nums := make([]uint64, len(blocks))
	next := uint64(2)
	for i := range nums {
		if s.sparse {
			next += uint64(r.intn(3))
		}
		nums[i] = next
		next++
	}
	if s.shuffle {
		for i := len(nums) - 1; i > 0; i-- {
			j := r.intn(i + 1)
			nums[i], nums[j] = nums[j], nums[i]
		}
	}
	for i := range blocks {
		blocks[i].BlockNumber = nums[i]
	}
	pl := bpv7.NewCanonicalBlock(1, 0, bpv7.NewPayloadBlock(s.payload))
	pl.SetCRCType(bpv7.CRCType(r.intn(3)))
	blocks = append(blocks, pl)
	return bpv7.Bundle{PrimaryBlock: pb, CanonicalBlocks: blocks}
}

func c06Bytes(r *verifRng, n int) []byte {
	b := make([]byte, n)
	for i := range b {
		b[i] = byte(r.next())
	}
	return b
}

var c06UnknownTypes = []uint64{11, 42, 191, 192, 193, 194, 195, 200, 222, 65000}

// c06Base draws the parts every scenario has.
func c06Base(r *verifRng, id int) c06Scen {
	s := c06Scen{id: id, rs: r.next(), life: 3600_000, ctAgo: time.Duration(r.intn(20000)) * time.Millisecond,
		pcrc: bpv7.CRCType(r.intn(3)), payload: c06Bytes(r, r.intn(40)), shuffle: r.intn(3) == 0, sparse: r.intn(2) == 0}
	if r.intn(4) == 0 {
		s.bflags = bpv7.MustNotFragmented
	}
	return s
}

func c06RandomBlocks(r *verifRng, s *c06Scen) {
	if r.intn(5) < 3 {
		s.hasHop = true
		s.limit = uint8(1 + r.intn(255))
		s.count = uint8(r.intn(int(s.limit)))
	}
	if r.intn(2) == 0 {
		s.hasAge = true
		s.age = uint64(r.intn(100000))
	}
	if r.intn(2) == 0 {
		s.hasPrev = true
		s.prev = []string{"dtn://before/", "dtn://other-node/", "ipn:23.1", c06Node}[r.intn(4)]
	}
	n := r.intn(4)
	perm := r.intn(len(c06UnknownTypes))
	for i := 0; i < n; i++ {
		fl := bpv7.BlockControlFlags(0)
		if r.intn(2) == 0 {
			fl |= bpv7.RemoveBlock
		}
		if r.intn(3) == 0 {
			fl |= bpv7.ReplicateBlock
		}
		if r.intn(5) == 0 {
			fl |= bpv7.StatusReportBlock
		}
		s.extras = append(s.extras, c06Extra{typ: c06UnknownTypes[(perm+i)%len(c06UnknownTypes)], flags: fl, data: c06Bytes(r, r.intn(12))})
	}
}

func c06Batches(seed uint64, thorough bool) []c06Batch {
	r := &verifRng{s: seed*0x51ed27 + 6}
	id := 0
	nid := func() int { id++; return id }
	var out []c06Batch
	scale := 1
	if thorough {
		scale = 4
	}

	// (1) structure: every presence combination of hop/age/prev-node, every flag combination of one
	// unknown block; three retries without waiting.
	{
		b := c06Batch{name: "structure", algo: "epidemic", peers: 1, gaps: make([]time.Duration, 3), lastOk: true}
		for m := 0; m < 8; m++ {
			for fl := 0; fl < 16; fl++ {
				s := c06Base(r, nid())
				s.hasHop, s.hasAge, s.hasPrev = m&1 != 0, m&2 != 0, m&4 != 0
				s.limit, s.count = uint8(2+r.intn(250)), 0
				s.count = uint8(r.intn(int(s.limit)))
				s.age = uint64(r.intn(50000))
				s.prev = "dtn://before/"
				flags := bpv7.BlockControlFlags(0)
				if fl&1 != 0 {
					flags |= bpv7.ReplicateBlock
				}
				if fl&2 != 0 {
					flags |= bpv7.StatusReportBlock
				}
				if fl&4 != 0 {
					flags |= bpv7.DeleteBundle
				}
				if fl&8 != 0 {
					flags |= bpv7.RemoveBlock
				}
				s.extras = []c06Extra{{typ: c06UnknownTypes[r.intn(len(c06UnknownTypes))], flags: flags, data: c06Bytes(r, r.intn(10))}}
				if r.intn(2) == 0 {
					s.extras = append(s.extras, c06Extra{typ: 777, flags: bpv7.BlockControlFlags(r.intn(2)), data: c06Bytes(r, 3)})
				}
				s.note = "structure"
				b.scens = append(b.scens, s)
			}
			if m%2 == 1 {
				out = append(out, b)
				b.scens = nil
			}
		}
	}

	// (2) hop count x limit through the Core: boundary grid + random pairs; two peers, 2 retries.
	{
		grid := []int{0, 1, 2, 3, 127, 128, 253, 254, 255}
		var pairs [][2]int
		for _, l := range grid {
			for _, c := range grid {
				pairs = append(pairs, [2]int{l, c})
			}
		}
		for i := 0; i < 60*scale; i++ {
			pairs = append(pairs, [2]int{r.intn(256), r.intn(256)})
		}
		b := c06Batch{name: "hop", algo: "epidemic", peers: 2, gaps: make([]time.Duration, 2), lastOk: true}
		for i, p := range pairs {
			s := c06Base(r, nid())
			s.hasHop, s.limit, s.count = true, uint8(p[0]), uint8(p[1])
			s.hasPrev, s.prev = r.intn(2) == 0, "dtn://before/"
			s.note = "hop"
			b.scens = append(b.scens, s)
			if len(b.scens) == 36 || i == len(pairs)-1 {
				out = append(out, b)
				b.scens = nil
			}
		}
	}

	// (3) random structure, five retries, no waiting, two peers
	for k := 0; k < 2+2*scale; k++ {
		b := c06Batch{name: "random", algo: "epidemic", peers: 1 + k%2, gaps: make([]time.Duration, 5), lastOk: true}
		for i := 0; i < 20; i++ {
			s := c06Base(r, nid())
			c06RandomBlocks(r, &s)
			if r.intn(4) == 0 {
				s.ctZero, s.hasAge = true, true
				s.life = s.age + 3600_000
			}
			s.note = "random"
			b.scens = append(b.scens, s)
		}
		out = append(out, b)
	}

	// (3b) direct delivery: the only peer is the bundle's destination (senderForDestination; the bundle
	// is deleted after the successful transmission)
	{
		b := c06Batch{name: "direct", algo: "epidemic", peers: 1, gaps: make([]time.Duration, 2), lastOk: true, direct: true}
		for i := 0; i < 16*scale; i++ {
			s := c06Base(r, nid())
			c06RandomBlocks(r, &s)
			s.note = "direct"
			b.scens = append(b.scens, s)
		}
		out = append(out, b)
	}

	// (3c) binary spray: the routing algorithm owns block type 192 (added or updated while forwarding)
	for k := 0; k < 2; k++ {
		b := c06Batch{name: "bspray", algo: "binary_spray", peers: 2, gaps: make([]time.Duration, 3), lastOk: true}
		for i := 0; i < 12*scale; i++ {
			s := c06Base(r, nid())
			c06RandomBlocks(r, &s)
			var ex []c06Extra
			for _, e := range s.extras {
				if e.typ != 192 {
					ex = append(ex, e)
				}
			}
			s.extras = ex
			s.spray = []uint64{0, 1, 2, 8, 9}[r.intn(5)]
			s.note = "bspray"
			b.scens = append(b.scens, s)
		}
		out = append(out, b)
	}

	// (4) residence and lifetime: waiting between the retries; cumulative residence up to ~3 s
	// (quick) / ~10 s (thorough).
	gapSets := [][]time.Duration{
		{300 * time.Millisecond, 1000 * time.Millisecond, 1700 * time.Millisecond},
		{0, 2900 * time.Millisecond},
		{1200 * time.Millisecond, 0, 1500 * time.Millisecond, 0, 0},
	}
	if thorough {
		gapSets = append(gapSets,
			[]time.Duration{2500 * time.Millisecond, 2500 * time.Millisecond, 5000 * time.Millisecond},
			[]time.Duration{10 * time.Second})
	}
	for k, gaps := range gapSets {
		total := time.Duration(0)
		for _, g := range gaps {
			total += g
		}
		for rep := 0; rep < 2; rep++ {
			b := c06Batch{name: fmt.Sprintf("time%d", k), algo: "epidemic", peers: 1 + rep, gaps: gaps, lastOk: true}
			for i := 0; i < 10+10*scale; i++ {
				s := c06Base(r, nid())
				c06RandomBlocks(r, &s)
				s.note = "time"
				switch i % 10 {
				case 0, 1: // age block, long lifetime: residence must show up in milliseconds
					s.hasAge, s.age = true, uint64(r.intn(5000))
				case 2: // creation time: already expired on reception
					s.ctAgo, s.life = 60*time.Second, 10_000
				case 3: // creation time: expires well inside the waiting time (first runs are too close to judge)
					s.ctAgo, s.life = 10*time.Second, 10_000+uint64(total/time.Millisecond)/5
				case 4: // creation time: expires long after
					s.ctAgo, s.life = 10*time.Second, 600_000
				case 5: // zero creation time, age already above the lifetime
					s.ctZero, s.hasAge, s.age, s.life = true, true, 5000+uint64(r.intn(100)), 5000
				case 6: // zero creation time, age equals the lifetime
					s.ctZero, s.hasAge, s.age, s.life = true, true, 7000, 7000
				case 7: // zero creation time, runs out while waiting here
					s.ctZero, s.hasAge, s.age = true, true, uint64(r.intn(100000))
					s.life = s.age + uint64(total/time.Millisecond)/3 + 50
				case 8: // zero creation time, long lifetime
					s.ctZero, s.hasAge, s.age = true, true, uint64(r.intn(100000))
					s.life = s.age + 3600_000
				case 9: // non-zero creation time AND age block near its lifetime
					s.hasAge, s.age = true, uint64(r.intn(1000))
					s.life = 20_000 + s.age + uint64(total/time.Millisecond)/2
				}
				b.scens = append(b.scens, s)
			}
			out = append(out, b)
		}
	}
	return out
}

// ---- running one batch ---------------------------------------------------------------------------

type c06Run struct {
	elLo, elHi   int64 // ns, residence bracket of this run
	nowLo, nowHi uint64
	store        bool
}

type c06Tx struct {
	run   int
	peer  string
	ok    bool
	valid bool
	dump  string
}

type c06State struct {
	s        *c06Scen
	acc      string
	known    string
	idStr    string
	t0, t1   time.Time // reception bracket
	hop      *bpv7.HopCountBlock
	mem      string
	runs     []c06Run
	txs      []c06Tx
	bid      bpv7.BundleID
	cleanBef bool
	cleanAft bool
}

// coverage counters (printed in the closing note)
var c06Cov struct {
	sync.Mutex
	tx, runs, runsSent, droppedAtReception, droppedAtRetry, keptUnsent int
}

func c06DtnMs(t time.Time) uint64 { return uint64(bpv7.DtnTimeFromTime(t)) }

func c06RunBatch(b *c06Batch, dir string, only int) (lines []string, err error) {
	defer func() {
		if r := recover(); r != nil {
			lines = append(lines, fmt.Sprintf("panic %s %v", b.name, strings.ReplaceAll(fmt.Sprint(r), " ", "_")))
		}
	}()
	c, err := verifNewCore(dir, c06Node, RoutingConf{Algorithm: b.algo, SprayConf: SprayConfig{Multiplicity: 8}})
	if err != nil {
		return nil, err
	}
	defer c.Close()
	// the harness calls the cron body itself; a background tick would start forward runs the
	// residence brackets know nothing about
	c.cron.Unregister("pending_bundles")
	c.cron.Unregister("clean_store")

	net := &verifNet{}
	var mocks []*verifMockCLA
	for i := 0; i < b.peers; i++ {
		peer := fmt.Sprintf("dtn://peer%d/", i+1)
		if b.direct && i == 0 {
			peer = c06Dst
		}
		m := net.newCLA(fmt.Sprintf("p%d", i+1), bpv7.MustNewEndpointID(peer), false)
		mocks = append(mocks, m)
		verifPeerUp(c, m)
	}
	// with two peers the second one accepts everything at once, the first one only in the last run
	if b.peers > 1 {
		mocks[1].setDefault(true)
	}

	states := make([]*c06State, 0, len(b.scens))
	byID := map[string]*c06State{}
	collect := func(run int) {
		for _, snt := range net.drain(true) {
			pb, praw, valid, ok := c06Parse(snt.Bytes)
			if !ok {
				// attribute by position is impossible: report against every bundle of the batch
				for _, st := range states {
					st.txs = append(st.txs, c06Tx{run: run, peer: snt.Peer, ok: snt.Ok, dump: "unparsable"})
				}
				continue
			}
			st := byID[pb.ID().String()]
			if st == nil {
				continue // status reports and other bundles created by the node itself
			}
			st.txs = append(st.txs, c06Tx{run: run, peer: snt.Peer, ok: snt.Ok, valid: valid, dump: c06Dump(&pb, praw)})
		}
	}

	// run 0: reception
	for i := range b.scens {
		s := &b.scens[i]
		bndl := s.build(time.Now())
		st := &c06State{s: s, acc: c06Dump(&bndl, nil), bid: bndl.ID(), idStr: bndl.ID().String()}
		var known []string
		seen := map[uint64]bool{}
		for j := range bndl.CanonicalBlocks {
			tc := bndl.CanonicalBlocks[j].TypeCode()
			if !seen[tc] && bpv7.GetExtensionBlockManager().IsKnown(tc) {
				known = append(known, strconv.FormatUint(tc, 10))
			}
			seen[tc] = true
			if h, ok := bndl.CanonicalBlocks[j].Value.(*bpv7.HopCountBlock); ok {
				st.hop = h
			}
		}
		sort.Strings(known)
		st.known = strings.Join(known, ",")
		if st.known == "" {
			st.known = "-"
		}
		states = append(states, st)
		byID[st.idStr] = st

		st.t0 = time.Now()
		bp := NewBundleDescriptorFromBundle(bndl, c.store)
		st.t1 = time.Now()
		bp.Receiver = bpv7.DtnNone()
		_ = bp.Sync()
		c.receive(bp)
		t3 := time.Now()
		st.runs = append(st.runs, c06Run{elLo: 0, elHi: int64(t3.Sub(st.t0)), nowLo: c06DtnMs(st.t1), nowHi: c06DtnMs(t3) + 1,
			store: c.store.KnowsBundle(st.bid.Scrub())})
		st.mem = "-"
		if st.hop != nil {
			st.mem = strconv.Itoa(int(st.hop.Count))
		}
		collect(0)
	}

	// retries
	for k, gap := range b.gaps {
		if gap > 0 {
			time.Sleep(gap)
		}
		if k == len(b.gaps)-1 && b.lastOk {
			mocks[0].setDefault(true)
		}
		t2 := time.Now()
		c.checkPendingBundles()
		t3 := time.Now()
		for _, st := range states {
			st.runs = append(st.runs, c06Run{elLo: int64(t2.Sub(st.t1)), elHi: int64(t3.Sub(st.t0)),
				nowLo: c06DtnMs(t2), nowHi: c06DtnMs(t3) + 1, store: c.store.KnowsBundle(st.bid.Scrub())})
		}
		collect(k + 1)
	}

	// the store's own expiry sweep (clean_store cron body)
	for _, st := range states {
		st.cleanBef = c.store.KnowsBundle(st.bid.Scrub())
	}
	tc := time.Now()
	c.store.DeleteExpired()
	for _, st := range states {
		st.cleanAft = c.store.KnowsBundle(st.bid.Scrub())
	}

	b2i := func(b bool) int {
		if b {
			return 1
		}
		return 0
	}
	c06Cov.Lock()
	for _, st := range states {
		c06Cov.tx += len(st.txs)
		sentIn := map[int]bool{}
		for _, t := range st.txs {
			sentIn[t.run] = true
		}
		prevStored := true
		for k, r := range st.runs {
			c06Cov.runs++
			switch {
			case sentIn[k]:
				c06Cov.runsSent++
			case prevStored && !r.store && k == 0:
				c06Cov.droppedAtReception++
			case prevStored && !r.store:
				c06Cov.droppedAtRetry++
			case r.store:
				c06Cov.keptUnsent++
			}
			prevStored = r.store
		}
	}
	c06Cov.Unlock()
	for _, st := range states {
		if only != 0 && st.s.id != only {
			continue
		}
		var runs, txs []string
		for k, r := range st.runs {
			runs = append(runs, fmt.Sprintf("%d;%d;%d;%d;%d;%d", k, r.elLo, r.elHi, r.nowLo, r.nowHi, b2i(r.store)))
		}
		for _, t := range st.txs {
			txs = append(txs, fmt.Sprintf("%d;%s;%d;%d;%s", t.run, t.peer, b2i(t.ok), b2i(t.valid), t.dump))
		}
		tx := "-"
		if len(txs) > 0 {
			tx = strings.Join(txs, "|")
		}
		lines = append(lines, fmt.Sprintf("fwd %d %s %s %s %s %s %s %s %d;%d;%d", st.s.id, verifHex([]byte(c06Node)), b.algo,
			st.known, st.acc, st.mem, strings.Join(runs, "|"), tx, c06DtnMs(tc), b2i(st.cleanBef), b2i(st.cleanAft)))
	}
	return lines, nil
}

// ---- entry ---------------------------------------------------------------------------------------

func TestVerifC06(t *testing.T) {
	outPath := os.Getenv("VERIF_OUT")
	if outPath == "" {
		t.Skip("VERIF_OUT not set")
	}
	scratch := os.Getenv("VERIF_SCRATCH")
	if scratch == "" {
		scratch = t.TempDir()
	}
	// The store (badger, synchronous writes) is the whole cost of this harness. checks/C06.json may
	// name a memory backed directory for the store directories; they are removed at the end.
	if fast := os.Getenv("VERIF_C06_STOREDIR"); fast != "" {
		if d, err := os.MkdirTemp(fast, "verif-c06-"); err == nil {
			defer os.RemoveAll(d)
			scratch = d
		}
	}
	seed := verifSeed()
	thorough := verifThorough()

	onlyOp, onlyA, onlyB := "", 0, 0
	if rp := os.Getenv("VERIF_REPLAY"); rp != "" {
		var doc struct {
			MinimalInput string `json:"minimal_input"`
			Seed         uint64 `json:"seed"`
			Tier         string `json:"tier"`
		}
		if data, err := os.ReadFile(rp); err == nil && json.Unmarshal(data, &doc) == nil {
			f := strings.Fields(doc.MinimalInput)
			if len(f) >= 3 {
				onlyOp = f[0]
				onlyA, _ = strconv.Atoi(f[1])
				onlyB, _ = strconv.Atoi(f[2])
				seed = doc.Seed
				thorough = doc.Tier == "thorough"
			}
		}
	}

	f, err := os.Create(outPath)
	if err != nil {
		t.Fatal(err)
	}
	w := bufio.NewWriter(f)
	defer func() { _ = w.Flush(); _ = f.Close() }()

	// (a) the whole hop count x limit square on the block methods, in forward's order
	nHc := 0
	for l := 0; l < 256; l++ {
		for c := 0; c < 256; c++ {
			if onlyOp != "" && !(onlyOp == "hc" && onlyA == l && onlyB == c) {
				continue
			}
			hc := &bpv7.HopCountBlock{Limit: uint8(l), Count: uint8(c)}
			res := hc.Increment()
			after := hc.Count
			exc := hc.IsExceeded()
			hc.Decrement()
			fmt.Fprintf(w, "hc %d %d %v %d %v %d\n", l, c, res, after, exc, hc.Count)
			nHc++
		}
	}
	_ = w.Flush()
	if onlyOp == "hc" {
		return
	}

	// (b) bundles through a real Core
	batches := c06Batches(seed, thorough)
	type res struct {
		idx   int
		lines []string
		err   error
		took  time.Duration
	}
	results := make([]res, len(batches))
	sem := make(chan struct{}, 16)
	var wg sync.WaitGroup
	runOne := func(i, only int) {
		dir := filepath.Join(scratch, fmt.Sprintf("c06-%d", i))
		tb := time.Now()
		lines, err := c06RunBatch(&batches[i], dir, only)
		_ = os.RemoveAll(dir)
		results[i] = res{i, lines, err, time.Since(tb)}
	}
	var later []int
	onlyOf := map[int]int{}
	for i := range batches {
		only := 0
		if onlyOp == "fwd" {
			only = onlyA
			found := false
			for _, s := range batches[i].scens {
				found = found || s.id == only
			}
			if !found {
				continue
			}
		}
		if batches[i].algo != "epidemic" {
			later = append(later, i)
			onlyOf[i] = only
			continue
		}
		wg.Add(1)
		go func(i, only int) {
			defer wg.Done()
			sem <- struct{}{}
			defer func() { <-sem }()
			runOne(i, only)
		}(i, only)
	}
	wg.Wait()
	// these register further block types with the process wide ExtensionBlockManager
	for _, i := range later {
		runOne(i, onlyOf[i])
	}
	nFwd := 0
	var slowest time.Duration
	hist := map[string]int{}
	for i, r := range results {
		if r.err != nil {
			t.Errorf("batch %s: %v", batches[i].name, r.err)
		}
		for _, l := range r.lines {
			fmt.Fprintln(w, l)
			nFwd++
		}
		hist[batches[i].name] += len(r.lines)
		if r.took > slowest {
			slowest = r.took
		}
		if os.Getenv("VERIF_C06_TIMING") != "" {
			fmt.Fprintf(w, "# batch %d %s n=%d peers=%d took=%.1fs\n", i, batches[i].name, len(batches[i].scens), batches[i].peers, r.took.Seconds())
		}
	}
	var hs []string
	for k, v := range hist {
		hs = append(hs, fmt.Sprintf("%s=%d", k, v))
	}
	sort.Strings(hs)
	fmt.Fprintf(w, "# C06 seed=%d thorough=%v hc=%d fwd=%d batches=%d %s slowest-batch=%.1fs\n", seed, thorough, nHc, nFwd, len(batches), strings.Join(hs, " "), slowest.Seconds())
	fmt.Fprintf(w, "# C06 coverage: forward-runs=%d with-transmission=%d transmissions=%d dropped-at-reception=%d dropped-at-retry=%d kept-unsent=%d\n",
		c06Cov.runs, c06Cov.runsSent, c06Cov.tx, c06Cov.droppedAtReception, c06Cov.droppedAtRetry, c06Cov.keptUnsent)
}
