package routing

// Correspondence harness for C20 (DTLSR forwards along a least-cost path). Attached to pkg/routing
// with `go test -overlay`; never part of /repo. Uses verif_common_test.go. One observation per line
// goes to $VERIF_OUT; the formats are documented in /verif/lean/Driver/C20.lean.
//
// Wall clock: computeRoutingTable prices a lost link with DtnTimeNow() - lossTime (milliseconds).
// The harness reads the clock before (T0) and after (T1) every recomputation, sets loss times
// relative to T0 and reports J = T1 - T0; the driver accepts a table iff it is right for SOME
// now in [T0, T1] (the code used exactly one of them).

import (
	"bufio"
	"bytes"
	"encoding/json"
	"fmt"
	"os"
	"sort"
	"strconv"
	"strings"
	"testing"
	"time"

	"github.com/RyanCarrier/dijkstra"
	log "github.com/sirupsen/logrus"

	"github.com/dtn7/dtn7-go/pkg/bpv7"
)

const (
	c20Absent = 0
	c20Live   = 1
	c20Lost   = 2
)

type c20Link struct {
	kind int
	age  uint64 // ms before T0 (lost links)
}

// c20Config: links[u][v] for u != v.
type c20Config struct {
	n     int
	links [][]c20Link
}

var c20EidCache = map[int]bpv7.EndpointID{}

// c20Eid caches endpoint ids: bpv7 compiles a regular expression on every NewEndpointID / CheckValid.
func c20Eid(i int) bpv7.EndpointID {
	if e, ok := c20EidCache[i]; ok {
		return e
	}
	e := bpv7.MustNewEndpointID(fmt.Sprintf("dtn://n%d/", i))
	c20EidCache[i] = e
	return e
}

func c20Name(e bpv7.EndpointID) string {
	s := e.String()
	if strings.HasPrefix(s, "dtn://n") && strings.HasSuffix(s, "/") {
		return s[len("dtn://n") : len(s)-1]
	}
	return "?" + s
}

var c20Seq uint64
var c20Bcast = bpv7.MustNewEndpointID(dtlsrBroadcastAddress)

// c20LinkStateBundle builds a bundle carrying a DTLSR block like sendMetadataBundle does. With
// wire = true it is serialised and re-parsed (what a convergence layer hands to the core; this is
// slow in bpv7 because every endpoint check compiles a regular expression, so the bulk instances
// do it for a fraction of their bundles only).
func c20LinkStateBundle(src bpv7.EndpointID, data bpv7.DTLSRPeerData, prev *bpv7.EndpointID, wire bool) (bpv7.Bundle, error) {
	c20Seq++
	primary := bpv7.NewPrimaryBlock(bpv7.MustNotFragmented, c20Bcast, src,
		bpv7.NewCreationTimestamp(bpv7.DtnTimeNow(), c20Seq), 30*60*1000)
	canonicals := []bpv7.CanonicalBlock{
		bpv7.NewCanonicalBlock(2, 0, bpv7.NewDTLSRBlock(data)),
	}
	if prev != nil {
		canonicals = append(canonicals, bpv7.NewCanonicalBlock(3, 0, bpv7.NewPreviousNodeBlock(*prev)))
	}
	canonicals = append(canonicals, bpv7.NewCanonicalBlock(1, 0, bpv7.NewPayloadBlock([]byte{1})))
	b := bpv7.MustNewBundle(primary, canonicals)
	if !wire {
		return b, nil
	}
	if err := b.CheckValid(); err != nil {
		return b, err
	}
	var buf bytes.Buffer
	if err := b.MarshalCbor(&buf); err != nil {
		return b, err
	}
	return bpv7.ParseBundle(&buf)
}

// c20Notify hands a bundle to NotifyNewBundle without storing it (the bookkeeping part of
// NotifyNewBundle then ends at "Bundle not in store").
func c20Notify(d *DTLSR, b bpv7.Bundle) {
	bp := BundleDescriptor{Id: b.ID(), Receiver: bpv7.DtnNone(), Timestamp: time.Now(),
		Constraints: map[Constraint]bool{}, Tags: map[Tag]struct{}{}, bndl: &b, store: d.c.store}
	d.NotifyNewBundle(bp)
}

// c20Guard runs f, recovering a panic and giving up after a few seconds (a recomputation that does
// not return keeps the instance's mutex: the instance is abandoned).
func c20Guard(f func()) (status string) {
	done := make(chan string, 1)
	go func() {
		defer func() {
			if r := recover(); r != nil {
				done <- "panic"
			}
		}()
		f()
		done <- "ok"
	}()
	select {
	case st := <-done:
		return st
	case <-time.After(5 * time.Second):
		return "hang"
	}
}

var c20Hangs int

func c20CfgStr(cfg c20Config) string {
	var ls []string
	for u := 0; u < cfg.n; u++ {
		for v := 0; v < cfg.n; v++ {
			switch l := cfg.links[u][v]; l.kind {
			case c20Live:
				ls = append(ls, fmt.Sprintf("%d>%d:L", u, v))
			case c20Lost:
				ls = append(ls, fmt.Sprintf("%d>%d:%d", u, v, l.age))
			}
		}
	}
	return c20Join(ls)
}

// c20Own checks the own link state right after a peer report: live = 0, lost = the clock reading
// at the time of the call. Problems are collected and printed by the caller.
func c20Own(d *DTLSR, v int, up bool, before bpv7.DtnTime) string {
	after := bpv7.DtnTimeNow()
	d.dataMutex.RLock()
	ts, present := d.peers.Peers[c20Eid(v)]
	_, tracked := d.nodeIndex[c20Eid(v)]
	d.dataMutex.RUnlock()
	ok := 0
	if up && present && ts == 0 && tracked {
		ok = 1
	}
	if !up && present && ts != 0 && ts >= before && ts <= after {
		ok = 1
	}
	what := "down"
	if up {
		what = "up"
	}
	return fmt.Sprintf("own %s %d %d", what, v, ok)
}

type c20Inst struct {
	own   []string
	d     *DTLSR
	net   *verifNet
	mocks map[int]*verifMockCLA
	lsTs  uint64
}

func c20NewInst(c *Core) *c20Inst {
	d := NewDTLSR(c, DTLSRConfig{RecomputeTime: "1h", BroadcastTime: "1h", PurgeTime: "1h"})
	return &c20Inst{d: d, net: &verifNet{}, mocks: map[int]*verifMockCLA{}, lsTs: 1000}
}

func (in *c20Inst) mock(i int) *verifMockCLA {
	if m, ok := in.mocks[i]; ok {
		return m
	}
	m := in.net.newCLA(fmt.Sprintf("n%d", i), c20Eid(i), true)
	in.mocks[i] = m
	return m
}

// apply drives the instance to the configuration and recomputes; returns T0, J and whether a
// recomputation happened.
func (in *c20Inst) apply(cfg c20Config, skip func(u int) bool) (t0 bpv7.DtnTime, j uint64, recomputed bool, status string) {
	d := in.d
	// (1) own peers through the real API
	for v := 1; v < cfg.n; v++ {
		l := cfg.links[0][v]
		d.dataMutex.RLock()
		cur, present := d.peers.Peers[c20Eid(v)]
		d.dataMutex.RUnlock()
		switch l.kind {
		case c20Live:
			if !present || cur != 0 {
				d.ReportPeerAppeared(in.mock(v))
				in.own = append(in.own, c20Own(d, v, true, 0))
			}
		case c20Lost, c20Absent:
			if l.kind == c20Absent && !present {
				continue
			}
			if !present {
				d.ReportPeerAppeared(in.mock(v))
			}
			before := bpv7.DtnTimeNow()
			d.ReportPeerDisappeared(in.mock(v))
			in.own = append(in.own, c20Own(d, v, false, before))
		}
	}
	// (2) the reference instant
	t0 = bpv7.DtnTimeNow()
	// (3) backdate own loss times; purge the peers that shall be absent
	purge := false
	d.dataMutex.Lock()
	for v := 1; v < cfg.n; v++ {
		l := cfg.links[0][v]
		if _, present := d.peers.Peers[c20Eid(v)]; !present {
			continue
		}
		switch l.kind {
		case c20Lost:
			d.peers.Peers[c20Eid(v)] = t0 - bpv7.DtnTime(l.age)
		case c20Absent:
			d.peers.Peers[c20Eid(v)] = t0 - bpv7.DtnTime(2*3600*1000)
			purge = true
		}
	}
	d.dataMutex.Unlock()
	if purge {
		d.purgePeers()
	}
	// (4) link state of the other nodes
	for u := 1; u < cfg.n; u++ {
		if skip != nil && skip(u) {
			continue
		}
		peers := map[bpv7.EndpointID]bpv7.DtnTime{}
		for v := 0; v < cfg.n; v++ {
			if v == u {
				continue
			}
			switch l := cfg.links[u][v]; l.kind {
			case c20Live:
				peers[c20Eid(v)] = 0
			case c20Lost:
				peers[c20Eid(v)] = t0 - bpv7.DtnTime(l.age)
			}
		}
		in.lsTs++
		b, err := c20LinkStateBundle(c20Eid(u), bpv7.DTLSRPeerData{ID: c20Eid(u), Timestamp: bpv7.DtnTime(in.lsTs), Peers: peers}, nil, in.lsTs%8 == 0)
		if err != nil {
			panic(err)
		}
		c20Notify(d, b)
	}
	// (5) the cron body
	d.dataMutex.RLock()
	recomputed = d.peerChange || d.receivedChange
	d.dataMutex.RUnlock()
	status = c20Guard(d.recomputeCron)
	t1 := bpv7.DtnTimeNow()
	return t0, uint64(t1 - t0), recomputed, status
}

// observe applies a configuration and prints the observation; false = the instance is dead.
func (in *c20Inst) observe(w *bufio.Writer, cfg c20Config, skip func(u int) bool) bool {
	t0, j, rec, status := in.apply(cfg, skip)
	// own-link observations: print the failures, and a sample of the successes
	for i, o := range in.own {
		if strings.HasSuffix(o, " 0") || (i == 0 && c20Seq%16 == 0) {
			fmt.Fprintln(w, o)
		}
	}
	in.own = in.own[:0]
	if status != "ok" {
		fmt.Fprintf(w, "%s %d %s\n", status, cfg.n, c20CfgStr(cfg))
		if status == "hang" {
			c20Hangs++
		}
		return false
	}
	if rec {
		fmt.Fprintln(w, in.tabLine(cfg.n, t0, j))
	}
	return true
}

func c20LinkStr(u, v string, ts, t0 bpv7.DtnTime) string {
	if ts == 0 {
		return u + ">" + v + ":L"
	}
	return fmt.Sprintf("%s>%s:%d", u, v, int64(t0)-int64(ts))
}

// tabLine prints the link state the instance holds (read back from the real structure), its
// routing table and its node index.
func (in *c20Inst) tabLine(n int, t0 bpv7.DtnTime, j uint64) string {
	d := in.d
	d.dataMutex.RLock()
	defer d.dataMutex.RUnlock()
	var links []string
	for p, ts := range d.peers.Peers {
		links = append(links, c20LinkStr("0", c20Name(p), ts, t0))
	}
	var known []string
	for id, data := range d.receivedData {
		if id != data.ID {
			links = append(links, "?key-mismatch")
		}
		known = append(known, c20Name(id))
		from := c20Name(data.ID)
		if data.ID == d.c.NodeId {
			from = "S" // what the node stored about itself (its own broadcast passes NotifyNewBundle)
		}
		for p, ts := range data.Peers {
			links = append(links, c20LinkStr(from, c20Name(p), ts, t0))
		}
	}
	sort.Strings(links)
	sort.Strings(known)
	var tab []string
	for dst, hop := range d.routingTable {
		tab = append(tab, c20Name(dst)+">"+c20Name(hop))
	}
	sort.Strings(tab)
	var idx []string
	for _, e := range d.indexNode {
		idx = append(idx, c20Name(e))
	}
	var flags []string
	if len(d.indexNode) != d.length || len(d.nodeIndex) != d.length {
		flags = append(flags, "length")
	}
	for i, e := range d.indexNode {
		if k, ok := d.nodeIndex[e]; !ok || k != i {
			flags = append(flags, "inverse")
			break
		}
	}
	return fmt.Sprintf("tab %d %d %d %s %s %s %s %s", n, uint64(t0), j, c20Join(links), c20Join(known), c20Join(tab), c20Join(idx), c20Join(flags))
}

func c20Join(l []string) string {
	if len(l) == 0 {
		return "-"
	}
	return strings.Join(l, ",")
}

// c20LibLines calls the Dijkstra library directly: one line per destination.
func c20LibLines(w *bufio.Writer, n int, arcs [][3]int64, src int, dests []int) {
	var as []string
	for _, a := range arcs {
		as = append(as, fmt.Sprintf("%d>%d:%d", a[0], a[1], a[2]))
	}
	for _, dest := range dests {
		res := func() (res string) {
			defer func() {
				if r := recover(); r != nil {
					res = "panic"
				}
			}()
			g := dijkstra.NewGraph()
			for i := 0; i < n; i++ {
				g.AddVertex(i)
			}
			for _, a := range arcs {
				if err := g.AddArc(int(a[0]), int(a[1]), a[2]); err != nil {
					return "err:addarc"
				}
			}
			bp, err := g.Shortest(src, dest)
			if err == dijkstra.ErrNoPath {
				return "nopath"
			} else if err != nil {
				if strings.Contains(err.Error(), dijkstra.ErrLoopDetected.Error()) {
					return "err:loop"
				}
				return "err:other"
			}
			var ps []string
			for _, p := range bp.Path {
				ps = append(ps, strconv.Itoa(p))
			}
			return fmt.Sprintf("ok:%d:%s", bp.Distance, strings.Join(ps, "."))
		}()
		fmt.Fprintf(w, "lib %d %s %d %d %s\n", n, c20Join(as), src, dest, res)
	}
}

// c20StaticArcs: the configuration as a static graph (lost link = its age).
func c20StaticArcs(cfg c20Config) (arcs [][3]int64) {
	for u := 0; u < cfg.n; u++ {
		for v := 0; v < cfg.n; v++ {
			if u == v {
				continue
			}
			switch l := cfg.links[u][v]; l.kind {
			case c20Live:
				arcs = append(arcs, [3]int64{int64(u), int64(v), 0})
			case c20Lost:
				arcs = append(arcs, [3]int64{int64(u), int64(v), int64(l.age)})
			}
		}
	}
	return
}

func c20EmptyConfig(n int) c20Config {
	cfg := c20Config{n: n, links: make([][]c20Link, n)}
	for i := range cfg.links {
		cfg.links[i] = make([]c20Link, n)
	}
	return cfg
}

func c20RandomAge(r *verifRng) uint64 {
	switch r.intn(6) {
	case 0, 1, 2: // whole seconds from a small set: many equal-cost alternatives
		return uint64(1+r.intn(6)) * 1000
	case 3:
		return uint64(1 + r.intn(86400*1000)) // up to a day
	case 4:
		return uint64(1+r.intn(3650)) * 86400 * 1000 // up to ten years
	default:
		return uint64(1 + r.intn(20000))
	}
}

func c20RandomConfig(r *verifRng, n int) c20Config {
	cfg := c20EmptyConfig(n)
	density := 1 + r.intn(4) // links present with probability density/5
	liveBias := r.intn(3)
	for u := 0; u < n; u++ {
		for v := 0; v < n; v++ {
			if u == v || r.intn(5) >= density {
				continue
			}
			if r.intn(3) < liveBias {
				cfg.links[u][v] = c20Link{kind: c20Live}
			} else {
				cfg.links[u][v] = c20Link{kind: c20Lost, age: c20RandomAge(r)}
			}
		}
	}
	return cfg
}

// ---- link-state arrival orders --------------------------------------------------------------

type c20Update struct {
	id, ts uint64
	marker int
}

func c20PeerDataStr(pd bpv7.DTLSRPeerData) string {
	var ps []string
	for p, ts := range pd.Peers {
		ps = append(ps, fmt.Sprintf("%s=%d", c20Name(p), uint64(ts)))
	}
	sort.Strings(ps)
	peers := "_"
	if len(ps) > 0 {
		peers = strings.Join(ps, "+")
	}
	return fmt.Sprintf("%s@%d:%s", c20Name(pd.ID), uint64(pd.Timestamp), peers)
}

func c20LsLine(c *Core, ups []c20Update) string {
	in := c20NewInst(c)
	var sent, acc []string
	for _, u := range ups {
		pd := bpv7.DTLSRPeerData{ID: c20Eid(int(u.id)), Timestamp: bpv7.DtnTime(u.ts),
			Peers: map[bpv7.EndpointID]bpv7.DtnTime{c20Eid(u.marker): 0}}
		if u.marker%2 == 1 {
			pd.Peers[c20Eid(u.marker+100)] = bpv7.DtnTime(u.ts)
		}
		b, err := c20LinkStateBundle(c20Eid(int(u.id)), pd, nil, c20Seq%8 == 0)
		if err != nil {
			panic(err)
		}
		in.d.dataMutex.Lock()
		in.d.receivedChange = false
		in.d.dataMutex.Unlock()
		c20Notify(in.d, b)
		in.d.dataMutex.RLock()
		if in.d.receivedChange {
			acc = append(acc, "1")
		} else {
			acc = append(acc, "0")
		}
		in.d.dataMutex.RUnlock()
		sent = append(sent, c20PeerDataStr(pd))
	}
	var fin []string
	in.d.dataMutex.RLock()
	for _, pd := range in.d.receivedData {
		fin = append(fin, c20PeerDataStr(pd))
	}
	in.d.dataMutex.RUnlock()
	sort.Strings(fin)
	return fmt.Sprintf("ls %s %s %s", c20Join(sent), strings.Join(acc, ""), c20Join(fin))
}

// ---- forwarding through a real Core ------------------------------------------------------------

type c20Parsed struct {
	src, dst string
	bcast    bool
	block    *bpv7.DTLSRPeerData
}

func c20ParseSent(s verifSent) c20Parsed {
	b, err := bpv7.ParseBundle(bytes.NewReader(s.Bytes))
	if err != nil {
		return c20Parsed{src: "?parse"}
	}
	p := c20Parsed{src: c20Name(b.PrimaryBlock.SourceNode), dst: c20Name(b.PrimaryBlock.Destination)}
	if b.PrimaryBlock.Destination.String() == dtlsrBroadcastAddress {
		p.bcast = true
	}
	if cb, err := b.ExtensionBlock(bpv7.ExtBlockTypeDTLSRBlock); err == nil {
		pd := cb.Value.(*bpv7.DTLSRBlock).GetPeerData()
		p.block = &pd
	}
	return p
}

func c20Sends(l []verifSent, keep func(p c20Parsed) bool) string {
	var out []string
	for _, s := range l {
		p := c20ParseSent(s)
		if !keep(p) {
			continue
		}
		r := "ok"
		if !s.Ok {
			r = "fail"
		}
		// the mock's name is n<peer> (a second sender to the same peer: n<peer>b)
		out = append(out, strings.TrimSuffix(strings.TrimPrefix(s.Peer, "n"), "b")+":"+r)
	}
	sort.Strings(out)
	return c20Join(out)
}

func c20Clas(c *Core) string {
	var out []string
	for _, cs := range c.claManager.Sender() {
		out = append(out, c20Name(cs.GetPeerEndpointID()))
	}
	sort.Strings(out)
	return c20Join(out)
}

func c20Scenario(w *bufio.Writer, r *verifRng, scratch string, k int) {
	dir := fmt.Sprintf("%s/c20core%d", scratch, k)
	c, err := verifNewCore(dir, "dtn://n0/", RoutingConf{Algorithm: "dtlsr",
		DTLSRConf: DTLSRConfig{RecomputeTime: "1h", BroadcastTime: "1h", PurgeTime: "1h"}})
	if err != nil {
		fmt.Fprintf(w, "# core error %v\n", err)
		return
	}
	defer func() { c.Close(); _ = os.RemoveAll(dir) }()
	d := c.routing.(*DTLSR)
	net := &verifNet{}
	n := 3 + r.intn(4)
	cfg := c20RandomConfig(r, n)
	// own links: one or two live peers, perhaps a lost one, the other nodes only reachable through
	// them — so that most unicast bundles have to follow the routing table
	if k%3 != 0 {
		live := 1 + r.intn(2)
		for v := 1; v < n; v++ {
			switch {
			case v <= live:
				cfg.links[0][v] = c20Link{kind: c20Live}
			case v == live+1 && r.intn(2) == 0:
				cfg.links[0][v] = c20Link{kind: c20Lost, age: c20RandomAge(r)}
			default:
				cfg.links[0][v] = c20Link{kind: c20Absent}
			}
		}
	} else {
		for v := 1; v < n; v++ {
			switch x := r.intn(10); {
			case x < 5:
				cfg.links[0][v] = c20Link{kind: c20Live}
			case x < 7:
				cfg.links[0][v] = c20Link{kind: c20Lost, age: c20RandomAge(r)}
			default:
				cfg.links[0][v] = c20Link{kind: c20Absent}
			}
		}
	}
	mocks := map[int]*verifMockCLA{}
	failing := map[int]bool{}
	// own peers: live ones are registered convergence senders; lost ones were registered and left
	for v := 1; v < n; v++ {
		if cfg.links[0][v].kind == c20Absent {
			continue
		}
		m := net.newCLA(fmt.Sprintf("n%d", v), c20Eid(v), true)
		// transmission outcomes: mostly fine; some peers fail always, some fail their first one or two
		// transmissions and then work, some fail a later one (several peers may fail in one run)
		switch r.intn(8) {
		case 0:
			m.setDefault(false)
			failing[v] = true
		case 1:
			m.setScript(false)
		case 2:
			m.setScript(false, false)
		case 3:
			m.setScript(true, false)
		}
		mocks[v] = m
		verifPeerUp(c, m)
	}
	// (a) the node's own broadcast: once to every peer, never again, later only to a new peer
	net.drain(false)
	d.dataMutex.RLock()
	willBroadcast := d.peerChange
	d.dataMutex.RUnlock()
	d.broadcastCron()
	ownBcast := func(p c20Parsed) bool { return p.bcast && p.src == "0" }
	var steps []string
	l := net.drain(false)
	steps = append(steps, c20Clas(c)+"|"+c20Sends(l, ownBcast))
	d.dataMutex.RLock()
	own := c20PeerDataStr(d.peers)
	d.dataMutex.RUnlock()
	for _, s := range l {
		if p := c20ParseSent(s); ownBcast(p) && p.block != nil {
			fmt.Fprintf(w, "blk %s %s\n", own, c20PeerDataStr(*p.block))
		} else if ownBcast(p) {
			fmt.Fprintf(w, "blk %s noblock\n", own)
		}
	}
	for i := 0; i < 2; i++ { // retry ticks: failed peers are offered the bundle again, the others are not
		c.checkPendingBundles()
		steps = append(steps, c20Clas(c)+"|"+c20Sends(net.drain(false), ownBcast))
	}
	extra := net.newCLA(fmt.Sprintf("n%d", n), c20Eid(n), true)
	if r.intn(2) == 0 {
		extra.setScript(false)
	}
	verifPeerUp(c, extra)
	steps = append(steps, c20Clas(c)+"|"+c20Sends(net.drain(false), ownBcast))
	for i := 0; i < 2; i++ {
		c.checkPendingBundles()
		steps = append(steps, c20Clas(c)+"|"+c20Sends(net.drain(false), ownBcast))
	}
	if willBroadcast {
		fmt.Fprintf(w, "bc - %s\n", strings.Join(steps, ";"))
	}
	verifPeerDown(c, extra)

	// lost own peers leave now
	for v := 1; v < n; v++ {
		if cfg.links[0][v].kind == c20Lost {
			verifPeerDown(c, mocks[v])
		}
	}
	t0 := bpv7.DtnTimeNow()
	d.dataMutex.Lock()
	for v := 1; v < n; v++ {
		if l := cfg.links[0][v]; l.kind == c20Lost {
			d.peers.Peers[c20Eid(v)] = t0 - bpv7.DtnTime(l.age)
		}
	}
	d.dataMutex.Unlock()
	// (b) link state of the others arrives through the whole pipeline; each bundle is relayed to
	// every peer except the one it came from
	var lsTs uint64 = 5000
	for u := 1; u < n; u++ {
		peers := map[bpv7.EndpointID]bpv7.DtnTime{}
		for v := 0; v < n; v++ {
			switch l := cfg.links[u][v]; {
			case v == u:
			case l.kind == c20Live:
				peers[c20Eid(v)] = 0
			case l.kind == c20Lost:
				peers[c20Eid(v)] = t0 - bpv7.DtnTime(l.age)
			}
		}
		lsTs++
		var prev *bpv7.EndpointID
		prevName := "-"
		var live []int
		for v := 1; v < n; v++ {
			if cfg.links[0][v].kind == c20Live {
				live = append(live, v)
			}
		}
		if len(live) > 0 && r.intn(4) != 0 {
			e := c20Eid(live[r.intn(len(live))])
			prev = &e
			prevName = c20Name(e)
		}
		b, err := c20LinkStateBundle(c20Eid(u), bpv7.DTLSRPeerData{ID: c20Eid(u), Timestamp: bpv7.DtnTime(lsTs), Peers: peers}, prev, true)
		if err != nil {
			panic(err)
		}
		net.drain(false)
		from := bpv7.DtnNone()
		if prev != nil {
			from = *prev
		}
		verifReceive(c, b, from)
		relayed := func(p c20Parsed) bool { return p.bcast && p.src == strconv.Itoa(u) }
		st := []string{c20Clas(c) + "|" + c20Sends(net.drain(false), relayed)}
		for i := 0; i < 2; i++ {
			c.checkPendingBundles()
			st = append(st, c20Clas(c)+"|"+c20Sends(net.drain(false), relayed))
		}
		fmt.Fprintf(w, "bc %s %s\n", prevName, strings.Join(st, ";"))
	}
	// recompute and report the table like the bulk instances do
	t0b := bpv7.DtnTimeNow()
	d.recomputeCron()
	j := uint64(bpv7.DtnTimeNow() - t0b)
	in := &c20Inst{d: d}
	fmt.Fprintln(w, in.tabLine(n+1, t0b, j))
	d.dataMutex.RLock()
	var tab []string
	for dst, hop := range d.routingTable {
		tab = append(tab, c20Name(dst)+">"+c20Name(hop))
	}
	d.dataMutex.RUnlock()
	sort.Strings(tab)
	// (c) unicast bundles: observe the peer chosen by Core.forward
	for dst := 1; dst <= n; dst++ {
		b, err := bpv7.Builder().
			Source("dtn://src/").
			Destination(c20Eid(dst)).
			CreationTimestampNow().
			Lifetime("30m").
			BundleCtrlFlags(bpv7.MustNotFragmented).
			PayloadBlock([]byte("c20")).
			Build()
		if err != nil {
			panic(err)
		}
		c20Seq++
		b.PrimaryBlock.CreationTimestamp = bpv7.NewCreationTimestamp(b.PrimaryBlock.CreationTimestamp.DtnTime(), c20Seq)
		net.drain(false)
		verifReceive(c, b, bpv7.DtnNone())
		uni := func(p c20Parsed) bool { return !p.bcast && p.src == "?dtn://src/" }
		sends := c20Sends(net.drain(false), uni)
		released := 0
		if _, err := c.store.QueryId(b.ID().Scrub()); err != nil {
			released = 1
		}
		fmt.Fprintf(w, "fwd %s %s %d %s %d\n", c20Join(tab), c20Clas(c), dst, sends, released)
	}
}

// c20TwoSenders: two convergence senders to one peer (two addresses, one endpoint ID) and one to another peer: the
// node's own broadcast goes ONCE to every peer.
func c20TwoSenders(w *bufio.Writer, r *verifRng, scratch string, k int) {
	dir := fmt.Sprintf("%s/c20two%d", scratch, k)
	c, err := verifNewCore(dir, "dtn://n0/", RoutingConf{Algorithm: "dtlsr",
		DTLSRConf: DTLSRConfig{RecomputeTime: "1h", BroadcastTime: "1h", PurgeTime: "1h"}})
	if err != nil {
		fmt.Fprintf(w, "# core error %v\n", err)
		return
	}
	defer func() { c.Close(); _ = os.RemoveAll(dir) }()
	d := c.routing.(*DTLSR)
	net := &verifNet{}
	a := net.newCLA("n1", c20Eid(1), true)
	b := net.newCLA("n1b", c20Eid(1), true)
	other := net.newCLA("n2", c20Eid(2), true)
	if k%2 == 1 {
		other.setScript(false)
	}
	verifPeerUp(c, a)
	verifPeerUp(c, b)
	verifPeerUp(c, other)
	net.drain(false)
	d.broadcastCron()
	ownBcast := func(p c20Parsed) bool { return p.bcast && p.src == "0" }
	var steps []string
	steps = append(steps, c20Clas(c)+"|"+c20Sends(net.drain(false), ownBcast))
	for i := 0; i < 2; i++ {
		c.checkPendingBundles()
		steps = append(steps, c20Clas(c)+"|"+c20Sends(net.drain(false), ownBcast))
	}
	fmt.Fprintf(w, "bc - %s\n", strings.Join(steps, ";"))
}

// ---- entry -----------------------------------------------------------------------------------

func c20ParseCfgFromTab(line string) (c20Config, bool) {
	f := strings.Fields(line)
	if len(f) < 5 || f[0] != "tab" {
		return c20Config{}, false
	}
	n, _ := strconv.Atoi(f[1])
	cfg := c20EmptyConfig(n)
	if f[4] == "-" {
		return cfg, true
	}
	for _, l := range strings.Split(f[4], ",") {
		var u, v int
		var rest string
		parts := strings.SplitN(l, ":", 2)
		if len(parts) != 2 {
			return cfg, false
		}
		uv := strings.SplitN(parts[0], ">", 2)
		if len(uv) != 2 {
			return cfg, false
		}
		u, _ = strconv.Atoi(uv[0])
		v, _ = strconv.Atoi(uv[1])
		rest = parts[1]
		if u >= n || v >= n {
			return cfg, false
		}
		if rest == "L" {
			cfg.links[u][v] = c20Link{kind: c20Live}
		} else {
			a, _ := strconv.ParseUint(rest, 10, 64)
			cfg.links[u][v] = c20Link{kind: c20Lost, age: a}
		}
	}
	return cfg, true
}

func TestVerifC20(t *testing.T) {
	outPath := os.Getenv("VERIF_OUT")
	if outPath == "" {
		t.Skip("VERIF_OUT not set")
	}
	f, err := os.Create(outPath)
	if err != nil {
		t.Fatal(err)
	}
	defer f.Close()
	w := bufio.NewWriter(f)
	defer w.Flush()
	log.SetLevel(log.PanicLevel)
	scratch := os.Getenv("VERIF_SCRATCH")
	if scratch == "" {
		scratch = t.TempDir()
	}
	r := &verifRng{s: verifSeed()*2654435761 + 20}
	thorough := verifThorough()

	core, err := verifNewCore(scratch+"/c20shared", "dtn://n0/", RoutingConf{Algorithm: "dtlsr",
		DTLSRConf: DTLSRConfig{RecomputeTime: "1h", BroadcastTime: "1h", PurgeTime: "1h"}})
	if err != nil {
		t.Fatal(err)
	}
	defer func() { core.Close(); _ = os.RemoveAll(scratch + "/c20shared") }()

	// ---- replay of one recorded observation
	if rp := os.Getenv("VERIF_REPLAY"); rp != "" {
		raw, err := os.ReadFile(rp)
		if err != nil {
			t.Fatal(err)
		}
		var rec struct {
			MinimalInput string `json:"minimal_input"`
		}
		_ = json.Unmarshal(raw, &rec)
		if cfg, ok := c20ParseCfgFromTab(rec.MinimalInput); ok {
			for i := 0; i < 5; i++ {
				in := c20NewInst(core)
				in.observe(w, cfg, nil)
			}
			var dests []int
			for i := 1; i < cfg.n; i++ {
				dests = append(dests, i)
			}
			c20LibLines(w, cfg.n, c20StaticArcs(cfg), 0, dests)
		} else {
			fmt.Fprintf(w, "# replay: only tab lines can be replayed individually; running the whole tier\n")
		}
		if _, ok := c20ParseCfgFromTab(rec.MinimalInput); ok {
			return
		}
	}

	// ---- (1) all directed graphs on 3 nodes, each link absent / live / lost 1, 2, 7 s ago
	// (5^6 = 15 625). The instances are chained in groups: the same DTLSR instance is driven from
	// one configuration to the next (newer link state replaces older, peers are purged), so that a
	// table which is not rebuilt from scratch shows.
	states := []c20Link{{kind: c20Absent}, {kind: c20Live}, {kind: c20Lost, age: 1000}, {kind: c20Lost, age: 2000}, {kind: c20Lost, age: 7000}}
	pairs := [][2]int{{0, 1}, {0, 2}, {1, 0}, {1, 2}, {2, 0}, {2, 1}}
	total := 15625
	// a seed-dependent permutation of the configurations (stride coprime to 5^6)
	stride := []int{7919, 104729, 1299709, 15485863}[int(verifSeed())%4]
	offset := r.intn(total)
	var in *c20Inst
	nTab := 0
	for k := 0; k < total; k++ {
		code := (offset + k*stride) % total
		cfg := c20EmptyConfig(3)
		x := code
		for _, p := range pairs {
			cfg.links[p[0]][p[1]] = states[x%5]
			x /= 5
		}
		if in == nil || k%6 == 0 {
			in = c20NewInst(core)
		}
		// a node without any link: sometimes it still announces (empty) link state, sometimes not
		skip := func(u int) bool {
			empty := true
			for v := 0; v < 3; v++ {
				if cfg.links[u][v].kind != c20Absent {
					empty = false
				}
			}
			_, has := in.d.receivedData[c20Eid(u)]
			return empty && !has && (code+u)%2 == 0
		}
		if c20Hangs < 3 {
			if in.observe(w, cfg, skip) {
				nTab++
			} else {
				in = nil
			}
		}
		if k%2 == 0 || thorough {
			c20LibLines(w, 3, c20StaticArcs(cfg), 0, []int{1, 2})
		}
	}
	fmt.Fprintf(w, "# c20: exhaustive 3-node configurations %d, tables observed %d\n", total, nTab)

	// ---- (1b) thorough: all directed graphs on 4 nodes, each link absent / live / lost 1 s ago (3^12)
	if thorough {
		st4 := []c20Link{{kind: c20Absent}, {kind: c20Live}, {kind: c20Lost, age: 1000}}
		total4 := 531441
		stride4 := []int{7919, 104729, 1299709, 15485863}[int(verifSeed())%4] // coprime to 3
		off4 := r.intn(total4)
		var in4 *c20Inst
		n4 := 0
		for k := 0; k < total4 && c20Hangs < 3; k++ {
			code := (off4 + k*stride4) % total4
			cfg := c20EmptyConfig(4)
			x := code
			for u := 0; u < 4; u++ {
				for v := 0; v < 4; v++ {
					if u != v {
						cfg.links[u][v] = st4[x%3]
						x /= 3
					}
				}
			}
			if in4 == nil || k%6 == 0 {
				in4 = c20NewInst(core)
			}
			if in4.observe(w, cfg, nil) {
				n4++
			} else {
				in4 = nil
			}
			if k%16 == 0 {
				c20LibLines(w, 4, c20StaticArcs(cfg), 0, []int{1, 2, 3})
			}
		}
		fmt.Fprintf(w, "# c20: exhaustive 4-node configurations %d, tables observed %d\n", total4, n4)
	}

	// ---- (2) random graphs on up to 8 (thorough 12) nodes, chained like above, with stale data
	maxN, nRand := 8, 1500
	if thorough {
		maxN, nRand = 12, 12000
	}
	for k := 0; k < nRand; {
		n := 2 + r.intn(maxN-1)
		in := c20NewInst(core)
		chain := 1 + r.intn(4)
		dead := false
		for s := 0; s < chain; s++ {
			grown := false
			if s > 0 && n < maxN && r.intn(2) == 0 {
				// a node nobody has mentioned so far shows up in NEWER link state of known nodes
				n++
				grown = true
			}
			cfg := c20RandomConfig(r, n)
			if grown {
				cfg.links[0][n-1] = c20Link{kind: c20Absent}
				for v := 0; v < n; v++ {
					cfg.links[n-1][v] = c20Link{kind: c20Absent}
				}
				u := 1 + r.intn(n-2+1)
				if u >= n-1 {
					u = 1
				}
				if n > 2 {
					cfg.links[u][n-1] = c20Link{kind: c20Live}
				}
			}
			skip := func(u int) bool {
				if grown {
					return u == n-1 // the new node itself stays silent
				}
				return s > 0 && r.intn(6) == 0
			}
			if c20Hangs < 3 && !dead {
				if !in.observe(w, cfg, skip) {
					dead = true
				}
			}
			if k%3 == 0 {
				var dests []int
				for i := 0; i < n; i++ {
					dests = append(dests, i)
				}
				src := 0
				if r.intn(3) == 0 {
					src = r.intn(n)
				}
				arcs := c20StaticArcs(cfg)
				// the library is more general than DTLSR's use of it: self loops
				if r.intn(4) == 0 {
					v := int64(r.intn(n))
					arcs = append(arcs, [3]int64{v, v, int64(r.intn(3)) * 1000})
				}
				c20LibLines(w, n, arcs, src, dests)
			}
			k++
		}
	}

	// ---- (2b) a neighbour x that is lost and then purged (purgePeers) while it never originated link
	// state itself and another node's stored peer list still names it: x must stay a known node
	// and stay reachable through that other node.
	nPurge := 200
	if thorough {
		nPurge = 2000
	}
	for k := 0; k < nPurge && c20Hangs < 3; k++ {
		n := 3 + r.intn(4)
		x := n - 1
		in := c20NewInst(core)
		cfg := c20RandomConfig(r, n)
		for v := 0; v < n; v++ {
			cfg.links[x][v] = c20Link{kind: c20Absent}
		}
		cfg.links[0][1] = c20Link{kind: c20Live}
		if r.intn(2) == 0 {
			cfg.links[0][x] = c20Link{kind: c20Live}
		} else {
			cfg.links[0][x] = c20Link{kind: c20Lost, age: c20RandomAge(r)}
		}
		if r.intn(3) == 0 {
			cfg.links[1][x] = c20Link{kind: c20Lost, age: c20RandomAge(r)}
		} else {
			cfg.links[1][x] = c20Link{kind: c20Live}
		}
		silentX := func(u int) bool { return u == x }
		if !in.observe(w, cfg, silentX) {
			continue
		}
		// x is purged; node 1's link state is either the stored one or refreshed
		cfg.links[0][x] = c20Link{kind: c20Absent}
		keepOld := r.intn(2) == 0
		if !in.observe(w, cfg, func(u int) bool { return u == x || (keepOld && u == 1) }) {
			continue
		}
		// one more round: other links change, x still only known through others
		cfg2 := c20RandomConfig(r, n)
		for v := 0; v < n; v++ {
			cfg2.links[x][v] = c20Link{kind: c20Absent}
		}
		cfg2.links[0][x] = c20Link{kind: c20Absent}
		cfg2.links[0][1] = cfg.links[0][1]
		cfg2.links[1][x] = cfg.links[1][x]
		in.observe(w, cfg2, func(u int) bool { return u == x || (keepOld && u == 1) })
	}

	// ---- (3) every arrival order of up to 5 (quick: 4, plus a sample of 5) link-state updates
	// from two nodes with timestamps from {10, 20, 30}: all sequences over the 6 (node, timestamp)
	// pairs, i.e. every multiset in every order, equal timestamps included.
	combos := [][2]uint64{{1, 10}, {1, 20}, {1, 30}, {2, 10}, {2, 20}, {2, 30}}
	var rec func(prefix []c20Update, depth int)
	nLs := 0
	rec = func(prefix []c20Update, depth int) {
		if len(prefix) > 0 {
			if len(prefix) < 5 || thorough || r.intn(4) == 0 {
				fmt.Fprintln(w, c20LsLine(core, prefix))
				nLs++
			}
		}
		if depth == 0 {
			return
		}
		for _, cb := range combos {
			rec(append(append([]c20Update{}, prefix...), c20Update{id: cb[0], ts: cb[1], marker: 10 + len(prefix)}), depth-1)
		}
	}
	rec(nil, 5)
	// the same, with link-state data whose peer list REPEATS: a node's state at time 10 and at time 30 lists the
	// same peers, at time 20 other ones (a link that went away and came back) — the stored data must still be the
	// newest, whatever the arrival order
	var rec2 func(prefix []c20Update, depth int)
	rec2 = func(prefix []c20Update, depth int) {
		if len(prefix) > 1 {
			fmt.Fprintln(w, c20LsLine(core, prefix))
			nLs++
		}
		if depth == 0 {
			return
		}
		for _, cb := range combos {
			marker := 20
			if cb[1] == 20 {
				marker = 22
			}
			rec2(append(append([]c20Update{}, prefix...), c20Update{id: cb[0], ts: cb[1], marker: marker}), depth-1)
		}
	}
	d2 := 3
	if thorough {
		d2 = 4
	}
	rec2(nil, d2)
	fmt.Fprintf(w, "# c20: link-state arrival sequences %d\n", nLs)

	// ---- (4) forwarding observed at mock convergence layers of a real Core
	nSc := 10
	if thorough {
		nSc = 150
	}
	_ = w.Flush()
	for k := 0; k < nSc; k++ {
		c20Scenario(w, r, scratch, k)
		if k < 2 {
			c20TwoSenders(w, r, scratch, k)
		}
	}
}
