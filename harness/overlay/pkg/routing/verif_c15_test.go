package routing

// Correspondence harness for C15 (status reports). Attached to pkg/routing with `go test -overlay`
// together with verif_common_test.go; never part of /repo. It drives a REAL Core through
// receive / SendBundle for subject bundles with every combination of the status-request flags, the
// time flag, the administrative flag, fragment/whole, several kinds of report-to endpoint, unknown
// blocks with every block-flag combination and every dispatch outcome, and writes one observation
// per scenario to $VERIF_OUT (format: /verif/lean/Driver/C15.lean).
//
// Everything reported is OBSERVED: the status reports are the administrative-record bundles found
// in the bytes handed to the mock convergence layers (or to the mock application agent), decoded
// field by field; the event log is built from the mock CLAs' send log (a successful Send of the
// subject = forwarded), the agent's inbox (= delivered), the store (gone without having been
// forwarded or delivered = deleted) and the harness's own call (= received).

import (
	"bufio"
	"bytes"
	"encoding/json"
	"fmt"
	"os"
	"regexp"
	"strconv"
	"strings"
	"sync"
	"testing"
	"time"

	"github.com/dtn7/dtn7-go/pkg/agent"
	"github.com/dtn7/dtn7-go/pkg/bpv7"
	"github.com/dtn7/dtn7-go/pkg/cla"
)

// ---- mock application agent ----------------------------------------------------------------

type c15Sync struct{ ack chan struct{} }

func (c15Sync) Recipients() []bpv7.EndpointID { return nil }

type c15Agent struct {
	eids []bpv7.EndpointID
	rx   chan agent.Message
	tx   chan agent.Message
	mu   sync.Mutex
	got  []bpv7.Bundle
}

func newC15Agent(eids ...bpv7.EndpointID) *c15Agent {
	a := &c15Agent{eids: eids, rx: make(chan agent.Message), tx: make(chan agent.Message)}
	go func() {
		for msg := range a.rx {
			switch m := msg.(type) {
			case agent.BundleMessage:
				a.mu.Lock()
				a.got = append(a.got, m.Bundle)
				a.mu.Unlock()
			case c15Sync:
				m.ack <- struct{}{}
			case agent.ShutdownMessage:
				return
			}
		}
	}()
	return a
}
func (a *c15Agent) Endpoints() []bpv7.EndpointID        { return a.eids }
func (a *c15Agent) MessageReceiver() chan agent.Message { return a.rx }
func (a *c15Agent) MessageSender() chan agent.Message   { return a.tx }
func (a *c15Agent) drain() []bpv7.Bundle {
	a.mu.Lock()
	defer a.mu.Unlock()
	g := a.got
	a.got = nil
	return g
}

// barrier: the mux delivers messages in order, so once the agent has seen the sentinel every
// bundle delivered before it is in the inbox.
func (n *c15Node) barrier() {
	if len(n.agents) == 0 {
		return
	}
	// every agent acknowledges the sentinel after everything it was sent before
	s := c15Sync{ack: make(chan struct{}, len(n.agents))}
	select {
	case n.c.agentManager.mux.MessageReceiver() <- s:
	case <-time.After(5 * time.Second):
		return
	}
	for range n.agents {
		select {
		case <-s.ack:
		case <-time.After(5 * time.Second):
			return
		}
	}
}

func (n *c15Node) drainAgents() []bpv7.Bundle {
	var out []bpv7.Bundle
	for _, a := range n.agents {
		out = append(out, a.drain()...)
	}
	return out
}

func (n *c15Node) addAgent(eids ...bpv7.EndpointID) {
	a := newC15Agent(eids...)
	n.agents = append(n.agents, a)
	n.c.RegisterApplicationAgent(a)
}

// ---- a receive-only convergence layer (its endpoint counts as one of the node's) --------------

type c15Receiver struct {
	name string
	eid  bpv7.EndpointID
	ch   chan cla.ConvergenceStatus
}

func (r *c15Receiver) Close() error                        { return nil }
func (r *c15Receiver) Start() (error, bool)                { return nil, true }
func (r *c15Receiver) Channel() chan cla.ConvergenceStatus { return r.ch }
func (r *c15Receiver) Address() string                     { return "verif://rcv-" + r.name }
func (r *c15Receiver) IsPermanent() bool                   { return false }
func (r *c15Receiver) GetEndpointID() bpv7.EndpointID      { return r.eid }

// ---- routing spy: every bundle the core announces to the routing algorithm ---------------------
//
// SendBundle and receive both call Algorithm.NotifyNewBundle. A report that is addressed to an
// endpoint of the node itself never reaches a convergence layer (and an agent only if one is
// registered for exactly that endpoint), but it does pass NotifyNewBundle: the spy makes every
// report observable at its creation, whatever its destination. All other calls are delegated.

type c15Spy struct {
	Algorithm
	mu   sync.Mutex
	seen []bpv7.Bundle
}

func (s *c15Spy) NotifyNewBundle(bp BundleDescriptor) {
	if b, err := (&bp).Bundle(); err == nil {
		cp := *b
		cp.CanonicalBlocks = append([]bpv7.CanonicalBlock(nil), b.CanonicalBlocks...)
		s.mu.Lock()
		s.seen = append(s.seen, cp)
		s.mu.Unlock()
	}
	s.Algorithm.NotifyNewBundle(bp)
}

func (s *c15Spy) drain() []bpv7.Bundle {
	s.mu.Lock()
	defer s.mu.Unlock()
	g := s.seen
	s.seen = nil
	return g
}

// ---- node under test ----------------------------------------------------------------------------

type c15Node struct {
	c     *Core
	net   *verifNet
	spy    *c15Spy
	agents []*c15Agent
	dst1   *verifMockCLA
	dst2   *verifMockCLA
	peers  int
	dir    string
	id     string
	desc   string // "node" line
}

var (
	c15NodeId    = "dtn://node/"
	c15AgentDst  = "dtn://node/app"
	c15AgentSvc  = "dtn://svc/inbox"
	c15Listener  = "dtn://alias/"
	c15Listener2 = "dtn://42/"
	c15RcvAlias  = "dtn://rcva/in"
)

func e(s string) bpv7.EndpointID { return bpv7.MustNewEndpointID(s) }

func newC15Node(dir, nodeId string, full bool) (*c15Node, error) {
	n := &c15Node{net: &verifNet{}, dir: dir, id: nodeId}
	if err := n.open(); err != nil {
		return nil, err
	}
	if full {
		n.configure()
		n.peersUp()
	}
	return n, nil
}

// open creates the Core on the node's directory (again, after a restart) and puts the spy in.
func (n *c15Node) open() error {
	c, err := verifNewCore(n.dir, n.id, RoutingConf{Algorithm: "epidemic"})
	if err != nil {
		return err
	}
	// the cron would re-dispatch pending bundles in the background every 10 s
	c.cron.Unregister("pending_bundles")
	c.cron.Unregister("clean_store")
	n.c = c
	n.spy = &c15Spy{Algorithm: c.routing}
	c.SetRoutingAlgorithm(n.spy)
	n.agents, n.dst1, n.dst2, n.peers = nil, nil, nil, 0
	return nil
}

// configure registers everything Core.HasEndpoint looks at (the "node" line), but no peers.
func (n *c15Node) configure() {
	c := n.c
	n.addAgent(e(c15AgentDst), e(c15AgentSvc))
	c.claManager.RegisterEndpointID(cla.MTCP, e(c15Listener))
	c.claManager.RegisterEndpointID(cla.TCPCLv4, e(c15Listener2))
	c.claManager.Register(&c15Receiver{name: "a", eid: e(c15RcvAlias), ch: make(chan cla.ConvergenceStatus)})
	n.desc = fmt.Sprintf("node id=%s agents=%s,%s listeners=%s,%s receivers=%s",
		n.id, c15AgentDst, c15AgentSvc, c15Listener, c15Listener2, c15RcvAlias)
}

// peersUp registers the three mock CLAs without triggering checkPendingBundles.
func (n *c15Node) peersUp() {
	if n.peers > 0 {
		return
	}
	rep := n.net.newCLA("rep", e("dtn://rep/"), true)
	n.dst1 = n.net.newCLA("dst1", e("dtn://dst/"), true)
	n.dst2 = n.net.newCLA("dst2", e("dtn://dst/"), true)
	for _, m := range []*verifMockCLA{rep, n.dst1, n.dst2} {
		n.c.claManager.Register(m)
		n.c.routing.ReportPeerAppeared(m)
		n.peers++
	}
}

// restart closes the Core and opens a new one on the same directory: descriptors, receivers and
// bundles then really come from the store.
func (n *c15Node) restart() error {
	n.c.Close()
	if err := n.open(); err != nil {
		return err
	}
	n.configure()
	return nil
}

// ---- scenarios ---------------------------------------------------------------------------------

const (
	dDelivered = iota // destination is the agent's endpoint
	dNoAgent          // destination is an endpoint of the node nobody registered
	dFwdBoth          // both convergence layers to the destination node accept
	dFwdOne           // one of them accepts
	dAllFailed        // both fail
	dExpired          // lifetime over
	dHop              // hop limit reached
	dFwdRouted        // no direct convergence layer: the routing algorithm picks all peers
	dCount
)

var c15DispatchNames = []string{"delivered", "noagent", "fwdboth", "fwdone", "allfailed", "expired", "hop", "fwdrouted"}

const (
	rtoPeer       = iota // dtn://rep/r   — a peer with a convergence layer
	rtoFar               // dtn://far/r   — nobody we are connected to
	rtoNone              // dtn:none
	rtoNodeExact         // the node ID itself
	rtoNodeOther         // another endpoint of this node
	rtoAgent             // an application agent's endpoint (foreign authority)
	rtoListener          // same authority as a registered listener ID
	rtoRcvAlias          // same node as a convergence receiver's endpoint
	rtoIpnFar            // ipn:7.1
	rtoIpnAlias          // ipn:42.1 — authority "42" equals the listener dtn://42/
	rtoAgentOther        // same authority as the agent's endpoint, other demux: not ours
	rtoCount
)

var c15Rto = []struct {
	eid  string
	self bool
}{
	{"dtn://rep/r", false}, {"dtn://far/r", false}, {"dtn:none", false}, {"dtn://node/", true},
	{"dtn://node/x", true}, {c15AgentSvc, true}, {"dtn://alias/z", true}, {"dtn://rcva/q", true},
	{"ipn:7.1", false}, {"ipn:42.1", true}, {"dtn://svc/other", false},
}

const (
	rcvNone = iota
	rcvNode
	rcvAlias    // a convergence receiver's endpoint: becomes the report's source
	rcvAgent    // an agent's endpoint
	rcvStranger // not an endpoint of the node: no report can be created
	rcvCount
)

var c15Rcv = []string{"dtn:none", "dtn://node/", c15RcvAlias, c15AgentDst, "dtn://stranger/"}

// The event of a "late" scenario happens on the retry-from-store path of a dedicated Core.
const (
	lateNone      = iota
	lateForwarded // every CLA fails at first; they accept when checkPendingBundles runs
	lateExpired   // lifetime over, but no peer at first (nothing is dispatched); peers appear later
	lateHop       // hop limit reached, no peer at first; peers appear later
	lateDelivered // nobody has the destination endpoint at first; an agent registers it later
	lateAged      // clock-less bundle with an age block: every CLA fails at first; by the time of the
	// retry its residence time exceeds the lifetime (forward: UpdateBundleAge >= Lifetime)
)

// lifetime of a lateAged subject and how long after its reception the retry happens
const (
	c15AgedLifetime = 3000
	c15AgedWait     = 3300 * time.Millisecond
)

var c15LateDst = "dtn://late/box"

type c15Sc struct {
	idx      int
	entry    string // recv | submit | foreign
	dup      bool   // hand the same bundle to receive a second time afterwards
	retry    int    // after an all-failed forward: re-dispatch from the store (1: CLAs accept now, 2: still fail)
	late     int    // dedicated Core: the reporting event is reached only by checkPendingBundles (lateXxx)
	restart  bool   // late: Close the Core and open a new one on the same directory before the retry
	flags    uint64 // request flags, time flag, admin flag (fragment flag added from frag)
	frag     bool
	rto      int
	dispatch int
	rcv      int
	blocks   []uint64 // block flags of unknown blocks, in block-number order
	hopBlock bool     // a harmless hop count block
	oneOk    int      // for dFwdOne: which of the two accepts
}

var c15ReqFlags = []bpv7.BundleControlFlags{bpv7.StatusRequestReception, bpv7.StatusRequestForward,
	bpv7.StatusRequestDelivery, bpv7.StatusRequestDeletion, bpv7.RequestStatusTime, bpv7.AdministrativeRecordPayload}

// flagWord maps a 6-bit selector to a flag word.
func c15FlagWord(sel int) uint64 {
	var f bpv7.BundleControlFlags
	for i, fl := range c15ReqFlags {
		if sel&(1<<uint(i)) != 0 {
			f |= fl
		}
	}
	return uint64(f)
}

func c15Scenarios(seed uint64, thorough bool) []c15Sc {
	var out []c15Sc
	add := func(s c15Sc) { s.idx = len(out); out = append(out, s) }
	r := &verifRng{s: seed*0x9e3779b9 + 15}

	// (A) all 64 flag words x whole/fragment x dispatch outcomes, report-to = a peer
	dsA := []int{dNoAgent, dFwdBoth, dExpired}
	if thorough {
		dsA = []int{dDelivered, dNoAgent, dFwdBoth, dFwdOne, dAllFailed, dExpired, dHop, dFwdRouted}
	}
	for sel := 0; sel < 64; sel++ {
		for fr := 0; fr < 2; fr++ {
			for _, d := range dsA {
				add(c15Sc{entry: "recv", flags: c15FlagWord(sel), frag: fr == 1, rto: rtoPeer, dispatch: d, oneOk: sel % 2})
			}
		}
	}
	// (B) one unknown block with each of the 16 combinations of the defined block flags
	blockFlag := func(k int) uint64 {
		var f uint64
		for i, b := range []uint64{0x01, 0x02, 0x04, 0x10} {
			if k&(1<<uint(i)) != 0 {
				f |= b
			}
		}
		return f
	}
	selsB := []int{0, 1, 8, 15, 32 + 15}
	if thorough {
		selsB = nil
		for sel := 0; sel < 64; sel++ {
			selsB = append(selsB, sel)
		}
	}
	for _, sel := range selsB {
		for k := 0; k < 16; k++ {
			for fr := 0; fr < 2; fr++ {
				if !thorough && fr == 1 && k%3 != 0 {
					continue
				}
				add(c15Sc{entry: "recv", flags: c15FlagWord(sel), frag: fr == 1, rto: rtoPeer, dispatch: dFwdBoth, blocks: []uint64{blockFlag(k)}})
			}
		}
	}
	// two and three unknown blocks: order (last to first) and the early exit on deletion
	for a := 0; a < 16; a++ {
		for b := 0; b < 16; b++ {
			if !thorough && (a*16+b)%8 != int(seed%8) {
				continue
			}
			add(c15Sc{entry: "recv", flags: c15FlagWord(15), rto: rtoPeer, dispatch: dFwdBoth, blocks: []uint64{blockFlag(a), blockFlag(b)}})
		}
	}
	// (C) every kind of report-to endpoint x every receiver x a few flag words
	selsC := []int{31}
	if thorough {
		selsC = []int{1, 2, 4, 8, 15, 31, 47}
	}
	for _, sel := range selsC {
		for rto := 0; rto < rtoCount; rto++ {
			for rcv := 0; rcv < rcvCount; rcv++ {
				for _, d := range []int{dDelivered, dFwdBoth, dHop} {
					if !thorough && rcv != rcvNone && d != dFwdBoth {
						continue
					}
					add(c15Sc{entry: "recv", flags: c15FlagWord(sel), rto: rto, dispatch: d, rcv: rcv})
				}
			}
		}
	}
	// (D) SendBundle: own source (all flag words) and foreign source (deleted at once)
	for sel := 0; sel < 64; sel++ {
		if !thorough && sel%8 != int(seed%8) && sel != 15 && sel != 31 {
			continue
		}
		for _, d := range []int{dFwdBoth, dAllFailed, dDelivered, dNoAgent} {
			add(c15Sc{entry: "submit", flags: c15FlagWord(sel), rto: rtoPeer, dispatch: d, frag: sel%8 == 3})
		}
		add(c15Sc{entry: "foreign", flags: c15FlagWord(sel), rto: rtoPeer, dispatch: dFwdBoth})
	}
	// (E) the same bundle received twice
	for _, sel := range []int{1, 15, 31} {
		for _, d := range []int{dNoAgent, dAllFailed, dFwdBoth, dDelivered} {
			add(c15Sc{entry: "recv", dup: true, flags: c15FlagWord(sel), rto: rtoPeer, dispatch: d})
		}
	}
	// (G) a pending bundle re-dispatched from the store, as checkPendingBundles does
	for _, sel := range []int{0, 2, 15, 31, 34} {
		for fr := 0; fr < 2; fr++ {
			for _, rcv := range []int{rcvNone, rcvAlias} {
				for retry := 1; retry <= 2; retry++ {
					if !thorough && retry == 2 && (fr == 1 || rcv != rcvNone) {
						continue
					}
					add(c15Sc{entry: "recv", flags: c15FlagWord(sel), frag: fr == 1, rto: rtoPeer, dispatch: dAllFailed, rcv: rcv, retry: retry})
				}
			}
		}
	}
	// (H) the reporting event happens when checkPendingBundles re-dispatches the bundle from the
	// store (the descriptor is rebuilt from the stored, scrubbed ID), with and without a restart of
	// the Core in between; fragments and whole bundles
	selsH := []int{14, 30}
	if thorough {
		selsH = []int{2, 4, 8, 14, 30, 46}
	}
	for _, sel := range selsH {
		for fr := 0; fr < 2; fr++ {
			for late := lateForwarded; late <= lateAged; late++ {
				if late == lateAged && !thorough && sel != 30 {
					continue // each of these waits for three seconds
				}
				for rs := 0; rs < 2; rs++ {
					d := dAllFailed
					switch late {
					case lateExpired:
						d = dExpired
					case lateHop:
						d = dHop
					}
					add(c15Sc{entry: "recv", flags: c15FlagWord(sel), frag: fr == 1, rto: rtoPeer, dispatch: d,
						late: late, restart: rs == 1, rcv: []int{rcvNone, rcvAlias}[(sel/16+fr+rs)%2]})
				}
			}
		}
	}
	// (F) random scenarios
	nRand := 500
	if thorough {
		nRand = 6000
	}
	for i := 0; i < nRand; i++ {
		s := c15Sc{entry: "recv", flags: c15FlagWord(r.intn(64)), frag: r.intn(3) == 0, dispatch: r.intn(dCount),
			hopBlock: r.intn(4) == 0, oneOk: r.intn(2)}
		if r.intn(3) == 0 {
			s.flags &^= uint64(bpv7.AdministrativeRecordPayload)
		}
		switch r.intn(4) {
		case 0:
			s.rto = r.intn(rtoCount)
		case 1:
			s.rto = rtoFar
		default:
			s.rto = rtoPeer
		}
		if r.intn(4) == 0 {
			s.rcv = r.intn(rcvCount)
		}
		for nb := r.intn(4); nb > 0 && r.intn(2) == 0; nb-- {
			s.blocks = append(s.blocks, blockFlag(r.intn(16)))
		}
		switch r.intn(8) {
		case 0:
			s.entry = "submit"
		case 1:
			s.entry = "foreign"
		case 2:
			s.dup = true
		}
		add(s)
	}
	return out
}

// ---- building the subject -------------------------------------------------------------------

type c15Subject struct {
	b       bpv7.Bundle
	expired bool
	hop     bool
}

func c15AdminPayload() []byte {
	// a well-formed status report about some unrelated bundle
	ref := bpv7.MustNewBundle(bpv7.NewPrimaryBlock(0, e("dtn://x/"), e("dtn://y/"), bpv7.NewCreationTimestamp(1, 0), 1000),
		[]bpv7.CanonicalBlock{bpv7.NewCanonicalBlock(1, 0, bpv7.NewPayloadBlock([]byte("x")))})
	sr := bpv7.NewStatusReport(ref, bpv7.ReceivedBundle, bpv7.NoInformation, 0)
	blk, err := bpv7.AdministrativeRecordToCbor(sr)
	if err != nil {
		panic(err)
	}
	return blk.Value.(*bpv7.PayloadBlock).Data()
}

func (s c15Sc) build(base bpv7.DtnTime) c15Subject {
	flags := bpv7.BundleControlFlags(s.flags)
	if s.frag {
		flags |= bpv7.IsFragment
	}
	var dst string
	switch s.dispatch {
	case dDelivered:
		dst = c15AgentDst
	case dNoAgent:
		dst = "dtn://node/nobody"
	case dFwdRouted:
		dst = "dtn://nowhere/x"
	default:
		dst = "dtn://dst/x"
	}
	if s.late == lateDelivered {
		dst = c15LateDst
	}
	src := "dtn://src/"
	if s.entry == "submit" {
		src = "dtn://node/src"
	}
	// unique creation time per scenario (sequence 0: IdKeeper rewrites it on SendBundle anyway)
	t := base + bpv7.DtnTime(s.idx)
	// a day of lifetime: a slow (thorough, loaded machine) run must not expire the live subjects
	lifetime := uint64(24 * 3600000)
	expired := s.dispatch == dExpired
	if expired {
		t = base - bpv7.DtnTime(48*3600000) + bpv7.DtnTime(s.idx)
	}
	seq := uint64(0)
	if s.entry == "recv" {
		seq = uint64(s.idx % 3)
	}
	if s.late == lateAged {
		// no clock at the source: creation time zero, the age is carried in a bundle age block
		t, seq, lifetime = 0, uint64(s.idx), c15AgedLifetime
	}
	pb := bpv7.NewPrimaryBlock(flags, e(dst), e(src), bpv7.NewCreationTimestamp(t, seq), lifetime)
	pb.ReportTo = e(c15Rto[s.rto].eid)
	if s.frag {
		pb.FragmentOffset = uint64(7 + s.idx%1000)
		pb.TotalDataLength = uint64(5000 + s.idx)
	}
	payload := []byte("status report subject")
	if flags.Has(bpv7.AdministrativeRecordPayload) {
		payload = c15AdminPayload()
	}
	cbs := []bpv7.CanonicalBlock{bpv7.NewCanonicalBlock(1, 0, bpv7.NewPayloadBlock(payload))}
	no := uint64(2)
	if s.late == lateAged {
		cbs = append(cbs, bpv7.NewCanonicalBlock(no, 0, bpv7.NewBundleAgeBlock(0)))
		no++
	}
	hop := s.dispatch == dHop
	if hop {
		cbs = append(cbs, bpv7.NewCanonicalBlock(no, 0, &bpv7.HopCountBlock{Limit: 3, Count: 3}))
		no++
	} else if s.hopBlock {
		cbs = append(cbs, bpv7.NewCanonicalBlock(no, 0, &bpv7.HopCountBlock{Limit: 30, Count: 3}))
		no++
	}
	for i, bf := range s.blocks {
		cbs = append(cbs, bpv7.NewCanonicalBlock(no, bpv7.BlockControlFlags(bf),
			bpv7.NewGenericExtensionBlock([]byte{byte(i), 1, 2}, uint64(200+i))))
		no++
	}
	b := bpv7.MustNewBundle(pb, cbs)
	return c15Subject{b: b, expired: expired, hop: hop}
}

// ---- observation --------------------------------------------------------------------------------

type c15Report struct {
	id      bpv7.BundleID
	payload []byte
	text    string
	bundle  bpv7.Bundle
}

func c15Frag(isFrag bool, off, total uint64) string {
	if !isFrag {
		return "-"
	}
	return fmt.Sprintf("%d:%d", off, total)
}

// describe decodes an administrative-record bundle into the structural description for the driver.
func c15Describe(b bpv7.Bundle, via string) (string, []byte, error) {
	pl, err := b.PayloadBlock()
	if err != nil {
		return "", nil, err
	}
	data := pl.Value.(*bpv7.PayloadBlock).Data()
	ar, err := bpv7.NewAdministrativeRecordFromCbor(data)
	if err != nil {
		return "", data, err
	}
	sr, ok := ar.(*bpv7.StatusReport)
	if !ok {
		return "", data, fmt.Errorf("administrative record of type %d", ar.RecordTypeCode())
	}
	var items []string
	for _, it := range sr.StatusInformation {
		s := "0"
		if it.Asserted {
			s = "1"
		}
		if it.StatusRequested {
			s += "@" + strconv.FormatUint(uint64(it.Time), 10)
		}
		items = append(items, s)
	}
	p := b.PrimaryBlock
	return fmt.Sprintf("%d,%s,%s,%s,%d,%s,%d,%s,%d:%d,%s,%s,%s",
		uint64(p.BundleControlFlags), p.SourceNode, p.Destination, p.ReportTo, p.Lifetime,
		strings.Join(items, "/"), uint64(sr.ReportReason),
		sr.RefBundle.SourceNode, sr.RefBundle.Timestamp[0], sr.RefBundle.Timestamp[1],
		c15Frag(sr.RefBundle.IsFragment, sr.RefBundle.FragmentOffset, sr.RefBundle.TotalDataLength), via,
		verifHex(data)), data, nil
}

type c15Obs struct {
	okSends, failSends int
	delivered          int
	reports            []c15Report
	undecodable        int // administrative records that cannot be described
	stray              int // administrative records at a CLA/agent that were never announced to routing
}

func c15PayloadOf(b bpv7.Bundle) []byte {
	pl, err := b.PayloadBlock()
	if err != nil {
		return nil
	}
	return pl.Value.(*bpv7.PayloadBlock).Data()
}

// key identifies a report independently of its sequence number (IdKeeper rewrites it between
// NotifyNewBundle and the convergence layers).
func c15Key(b bpv7.Bundle) string {
	p := b.PrimaryBlock
	return fmt.Sprintf("%d|%s|%s|%x", uint64(p.BundleControlFlags), p.SourceNode, p.Destination, c15PayloadOf(b))
}

// collect classifies what happened since the last call. Reports = the administrative-record
// bundles announced to the routing algorithm (creation order), other than the subject itself.
// The mock CLAs' log and the agent's inbox give the subject's sends/deliveries and are
// cross-checked: an administrative record seen there must be one of the announced reports.
func (n *c15Node) collect(subject bpv7.BundleID, known map[string]bool) c15Obs {
	n.barrier()
	var o c15Obs
	for _, b := range n.spy.drain() {
		if b.ID() == subject || !b.IsAdministrativeRecord() {
			continue
		}
		known[c15Key(b)] = true
		txt, payload, err := c15Describe(b, "routing")
		if err != nil {
			o.undecodable++
			continue
		}
		o.reports = append(o.reports, c15Report{id: b.ID(), payload: payload, text: txt, bundle: b})
	}
	for _, s := range n.net.drain(false) {
		// ParseBundle validates after decoding: a bundle that violates CheckValid (e.g. the
		// administrative flag together with request flags) comes back fully populated plus an error.
		// Such a bundle is still classified by what was decoded; only a bundle without a usable
		// primary block counts as undecodable.
		b, err := bpv7.ParseBundle(bytes.NewReader(s.Bytes))
		if err != nil && b.PrimaryBlock.Version == 0 {
			o.undecodable++
			continue
		}
		if b.ID() == subject {
			if s.Ok {
				o.okSends++
			} else {
				o.failSends++
			}
			continue
		}
		if b.IsAdministrativeRecord() && !known[c15Key(b)] {
			o.stray++
		}
	}
	for _, b := range n.drainAgents() {
		if b.ID() == subject {
			o.delivered++
			continue
		}
		if b.IsAdministrativeRecord() && !known[c15Key(b)] {
			o.stray++
		}
	}
	return o
}

func (n *c15Node) stored(id bpv7.BundleID) bool {
	_, err := n.c.store.QueryId(id.Scrub())
	return err == nil
}

// cascade feeds a report bundle back into nodes and counts the NEW administrative records that
// appear at the routing spy, the CLAs or the agent (a copy of the report itself carries the same
// payload and is not counted).
func c15Cascade(rep c15Report, nodes []*c15Node, origin *c15Node) int {
	count := 0
	isNew := func(b bpv7.Bundle) bool {
		return b.IsAdministrativeRecord() && !bytes.Equal(c15PayloadOf(b), rep.payload)
	}
	countNew := func(n *c15Node) {
		n.barrier()
		for _, b := range n.spy.drain() {
			if isNew(b) {
				count++
			}
		}
		for _, s := range n.net.drain(false) {
			b, err := bpv7.ParseBundle(bytes.NewReader(s.Bytes))
			if err != nil && b.PrimaryBlock.Version == 0 {
				continue
			}
			if isNew(b) {
				count++
			}
		}
		for _, b := range n.drainAgents() {
			if isNew(b) {
				count++
			}
		}
	}
	for i, n := range nodes {
		func() {
			defer func() { _ = recover() }()
			cp := rep.bundle
			if i%2 == 0 {
				verifReceive(n.c, cp, bpv7.DtnNone())
			} else {
				verifReceive(n.c, cp, n.c.NodeId)
				cp2 := rep.bundle
				n.c.SendBundle(&cp2) // foreign source at this node: transmit deletes it
			}
		}()
		countNew(n)
	}
	// back into the node that created it
	func() {
		defer func() { _ = recover() }()
		cp := rep.bundle
		verifReceive(origin.c, cp, bpv7.DtnNone())
		cp2 := rep.bundle
		origin.c.SendBundle(&cp2)
	}()
	countNew(origin)
	return count
}

var c15Blank = regexp.MustCompile(`\s+`)

func TestVerifC15(t *testing.T) {
	outPath := os.Getenv("VERIF_OUT")
	if outPath == "" {
		t.Skip("VERIF_OUT not set")
	}
	f, err := os.Create(outPath)
	if err != nil {
		t.Fatal(err)
	}
	defer f.Close()
	w := bufio.NewWriter(f)
	defer w.Flush()

	seed := verifSeed()
	thorough := verifThorough()
	only := -1
	if rp := os.Getenv("VERIF_REPLAY"); rp != "" {
		var rj struct {
			Input string `json:"minimal_input"`
			Seed  uint64 `json:"seed"`
			Tier  string `json:"tier"`
		}
		data, err := os.ReadFile(rp)
		if err != nil {
			t.Fatal(err)
		}
		if err := json.Unmarshal(data, &rj); err != nil {
			t.Fatal(err)
		}
		seed, thorough = rj.Seed, rj.Tier == "thorough"
		if m := regexp.MustCompile(`\bn=(\d+)`).FindStringSubmatch(rj.Input); m != nil {
			only, _ = strconv.Atoi(m[1])
		}
	}
	scratch := os.Getenv("VERIF_SCRATCH")
	if scratch == "" {
		scratch = os.TempDir()
	}
	// The stores of the Cores are throw-away; a memory file system (named by checks/C15.json) makes
	// the run several times faster than fsync-ing badger on a busy disk. Fall back to $VERIF_SCRATCH.
	if fast := os.Getenv("VERIF_C15_FAST_SCRATCH"); fast != "" {
		if st, err := os.Stat(fast); err == nil && st.IsDir() {
			if ents, err := os.ReadDir(fast); err == nil {
				for _, en := range ents { // leftovers of killed runs
					if info, err := en.Info(); err == nil && strings.HasPrefix(en.Name(), "verif-c15-") &&
						time.Since(info.ModTime()) > 2*time.Hour {
						_ = os.RemoveAll(fast + "/" + en.Name())
					}
				}
			}
			if d, err := os.MkdirTemp(fast, "verif-c15-"); err == nil {
				scratch = d
				defer os.RemoveAll(d)
			}
		}
	}
	dir, err := os.MkdirTemp(scratch, "c15-")
	if err != nil {
		t.Fatal(err)
	}
	defer os.RemoveAll(dir)

	scs := c15Scenarios(seed, thorough)

	// shards: each with its own node under test and its own two feedback nodes
	shards := 16
	if only >= 0 {
		shards = 1
	}
	type shardOut struct{ lines []string }
	outs := make([]shardOut, shards)
	var wg sync.WaitGroup
	var desc string
	var descMu sync.Mutex
	hist := map[string]int{}
	var histMu sync.Mutex
	for sh := 0; sh < shards; sh++ {
		wg.Add(1)
		go func(sh int) {
			defer wg.Done()
			mk := func(name, id string, full bool) *c15Node {
				n, err := newC15Node(fmt.Sprintf("%s/s%d-%s", dir, sh, name), id, full)
				if err != nil {
					t.Errorf("core: %v", err)
					return nil
				}
				return n
			}
			node := mk("node", c15NodeId, true)
			// feedback nodes: the report-to node (an agent takes the report) and a relay
			rnode := mk("rep", "dtn://rep/", false)
			qnode := mk("relay", "dtn://relay/", false)
			if node == nil || rnode == nil || qnode == nil {
				return
			}
			defer node.c.Close()
			defer rnode.c.Close()
			defer qnode.c.Close()
			rnode.addAgent(e("dtn://rep/r"))
			verifPeerUp(rnode.c, rnode.net.newCLA("else", e("dtn://else/"), true))
			verifPeerUp(qnode.c, qnode.net.newCLA("rep", e("dtn://rep/"), true))
			verifPeerUp(qnode.c, qnode.net.newCLA("other", e("dtn://other/"), true))
			descMu.Lock()
			desc = node.desc
			descMu.Unlock()
			base := bpv7.DtnTimeNow() - 600000

			for _, sc := range scs {
				if sc.idx%shards != sh || (only >= 0 && sc.idx != only) {
					continue
				}
				// feeding reports back costs five more passes through a Core each: quick does it for a
				// deterministic sixth of the scenarios, thorough (and a replay) for all
				doCascade := thorough || only >= 0 || sc.idx%6 == int(seed%6)
				line := c15Run(node, []*c15Node{rnode, qnode}, sc, base, doCascade,
					fmt.Sprintf("%s/s%d-late%d", dir, sh, sc.idx))
				outs[sh].lines = append(outs[sh].lines, line...)
				histMu.Lock()
				if sc.late != lateNone {
					hist[fmt.Sprintf("late%d/restart=%v", sc.late, sc.restart)]++
				} else {
					hist[sc.entry+"/"+c15DispatchNames[sc.dispatch]]++
				}
				histMu.Unlock()
			}
		}(sh)
	}
	wg.Wait()
	fmt.Fprintln(w, desc)
	n := 0
	for _, o := range outs {
		for _, l := range o.lines {
			fmt.Fprintln(w, l)
			n++
		}
	}
	var hs []string
	for k, v := range hist {
		hs = append(hs, fmt.Sprintf("%s=%d", k, v))
	}
	sortStrings(hs)
	fmt.Fprintf(w, "# c15 scenarios=%d lines=%d seed=%d thorough=%v distribution: %s\n", len(scs), n, seed, thorough, strings.Join(hs, " "))
}

func sortStrings(s []string) {
	for i := 1; i < len(s); i++ {
		for j := i; j > 0 && s[j] < s[j-1]; j-- {
			s[j], s[j-1] = s[j-1], s[j]
		}
	}
}

// c15Run executes one scenario (and, for dup, the second reception) and returns its lines.
func c15Run(node *c15Node, feedback []*c15Node, sc c15Sc, base bpv7.DtnTime, doCascade bool, lateDir string) []string {
	sub := sc.build(base)
	id := sub.b.ID()
	if sc.late != lateNone {
		// a Core of its own, so that the real checkPendingBundles concerns this bundle only
		ln := &c15Node{net: &verifNet{}, dir: lateDir, id: c15NodeId}
		if err := ln.open(); err != nil {
			return []string{"# c15 late core: " + c15Blank.ReplaceAllString(err.Error(), "_")}
		}
		ln.configure()
		if sc.late == lateForwarded || sc.late == lateAged {
			ln.peersUp()
		}
		node = ln
		doCascade = false
		defer func() {
			node.c.Close()
			_ = os.RemoveAll(lateDir)
		}()
	}
	// scripted answers of the two convergence layers towards the destination node
	a1, a2 := true, true
	switch sc.dispatch {
	case dFwdOne:
		a1, a2 = sc.oneOk == 0, sc.oneOk != 0
	case dAllFailed:
		a1, a2 = false, false
	}
	if node.dst1 != nil {
		node.dst1.setDefault(a1)
		node.dst2.setDefault(a2)
	}

	var blocks []string
	for _, cb := range sub.b.CanonicalBlocks {
		if !bpv7.GetExtensionBlockManager().IsKnown(cb.TypeCode()) {
			blocks = append(blocks, strconv.FormatUint(uint64(cb.BlockControlFlags), 10))
		}
	}
	blk := "-"
	if len(blocks) > 0 {
		blk = strings.Join(blocks, ",")
	}
	p := sub.b.PrimaryBlock
	destLocal := sc.dispatch == dDelivered || sc.dispatch == dNoAgent

	want := c15DispatchNames[sc.dispatch]
	expiredNow := sub.expired
	// reports announced in an earlier phase of this scenario may reach a CLA in a later one
	known := map[string]bool{}
	one := func(entry string) string {
		// leftovers of an earlier scenario must not be attributed to this one
		node.net.drain(false)
		node.drainAgents()
		node.spy.drain()
		panicked := ""
		// On the retry path the descriptor is rebuilt from the store: its receiver is whatever the
		// stored item has (the property is only written by a Sync that finds constraints, so a bundle
		// that was never dispatched after its reception has none).
		rcv := c15Rcv[sc.rcv]
		loadable := 1
		if entry == "retry" || entry == "pending" {
			rcv = "dtn:none"
			if bi, err := node.c.store.QueryId(id.Scrub()); err == nil {
				if v, ok := bi.Properties["bundlepack/receiver"]; ok {
					rcv = v.(bpv7.EndpointID).String()
				}
				// the stored bytes are validated when they are loaded (Bundle.UnmarshalCbor ends in
				// CheckValid): a bundle whose lifetime (by its creation time) is over, or one with the
				// administrative flag plus request flags, does not come back and is not dispatched
				d := NewBundleDescriptor(bi.BId, node.c.store)
				if _, err := d.Bundle(); err != nil {
					loadable = 0
				}
			}
		} else if entry != "recv" && entry != "dup" {
			rcv = "dtn:none"
		}
		t0 := bpv7.DtnTimeNow()
		func() {
			defer func() {
				if r := recover(); r != nil {
					panicked = c15Blank.ReplaceAllString(fmt.Sprint(r), "_")
				}
			}()
			cp := sub.b
			cp.CanonicalBlocks = append([]bpv7.CanonicalBlock(nil), sub.b.CanonicalBlocks...)
			switch entry {
			case "recv", "dup":
				verifReceive(node.c, cp, e(c15Rcv[sc.rcv]))
			case "retry":
				// the body of checkPendingBundles' loop for this one bundle: the descriptor is built
				// from the ID the STORE has for it (BundleItem.BId, without the fragment fields)
				if bi, err := node.c.store.QueryId(id.Scrub()); err == nil {
					node.c.dispatching(NewBundleDescriptor(bi.BId, node.c.store))
				}
			case "pending":
				node.c.checkPendingBundles()
			default:
				node.c.SendBundle(&cp)
			}
		}()
		obs := node.collect(id, known)
		t1 := bpv7.DtnTimeNow()
		stored := node.stored(id)
		var reps []string
		casc := "-"
		if doCascade {
			k := 0
			for _, r := range obs.reports {
				k += c15Cascade(r, feedback, node)
			}
			casc = strconv.Itoa(k)
		}
		for _, r := range obs.reports {
			reps = append(reps, r.text)
		}
		rs := "-"
		if len(reps) > 0 {
			rs = strings.Join(reps, ";")
		}
		b2i := func(b bool) int {
			if b {
				return 1
			}
			return 0
		}
		line := fmt.Sprintf("sc n=%d entry=%s want=%s flags=%d frag=%s src=%s ts=%d:%d dst=%s rto=%s rcv=%s blocks=%s self=%d destlocal=%d peers=%d loadable=%d hop=%d expired=%d sends=%d:%d dlv=%d stored=%d t0=%d t1=%d undec=%d stray=%d reports=%s cascade=%s",
			sc.idx, entry, want, uint64(p.BundleControlFlags), c15Frag(p.BundleControlFlags.Has(bpv7.IsFragment), p.FragmentOffset, p.TotalDataLength),
			p.SourceNode, p.CreationTimestamp[0], p.CreationTimestamp[1], p.Destination, p.ReportTo, rcv, blk,
			b2i(c15Rto[sc.rto].self), b2i(destLocal), node.peers, loadable, b2i(sub.hop), b2i(expiredNow),
			obs.okSends, obs.failSends, obs.delivered, b2i(stored), uint64(t0), uint64(t1), obs.undecodable, obs.stray, rs, casc)
		if panicked != "" {
			line += " panic=" + panicked
		}
		return line
	}

	if sc.late != lateNone {
		if sc.late != lateForwarded && sc.late != lateAged {
			want = "notdispatched"
		}
		received := time.Now()
		lines := []string{one("recv")}
		if !node.stored(id) {
			return append(lines, fmt.Sprintf("# c15 late scenario n=%d: the bundle was not kept", sc.idx))
		}
		if sc.restart {
			if err := node.restart(); err != nil {
				return append(lines, "# c15 restart: "+c15Blank.ReplaceAllString(err.Error(), "_"))
			}
		}
		if sc.late == lateDelivered {
			node.addAgent(e(c15LateDst))
			destLocal = true
		}
		node.peersUp()
		node.dst1.setDefault(true)
		node.dst2.setDefault(true)
		want = []string{"", "fwdboth", "any", "hop", "delivered", "expired"}[sc.late]
		if sub.b.CheckValid() != nil {
			want = "any"
		}
		if sc.late == lateAged {
			if d := c15AgedWait - time.Since(received); d > 0 {
				time.Sleep(d)
			}
			expiredNow = true
		}
		return append(lines, one("pending"))
	}

	entry := sc.entry
	if entry == "recv" && node.stored(id) {
		entry = "dup" // cannot happen with unique IDs; kept for safety
	}
	lines := []string{one(entry)}
	if sc.dup && sc.entry == "recv" {
		// second reception: "known" exactly if the node still retains the bundle
		second := "recv"
		if node.stored(id) {
			second = "dup"
		}
		lines = append(lines, one(second))
	}
	if sc.retry != 0 && node.stored(id) {
		if sc.retry == 1 {
			node.dst1.setDefault(true)
			node.dst2.setDefault(true)
			want = "fwdboth"
		}
		if sub.b.CheckValid() != nil {
			// administrative flag plus request flags: the stored copy does not load again
			// (UnmarshalCbor validates), dispatching gives up before anything can be reported
			want = "any"
		}
		lines = append(lines, one("retry"))
	}
	return lines
}
