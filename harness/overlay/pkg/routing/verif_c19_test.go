package routing

// Correspondence harness for C19 (PRoPHET). Attached to pkg/routing with `go test -overlay`; never
// part of /repo. Writes one self-contained observation per line to $VERIF_OUT; the format is
// described in /verif/lean/Driver/C19.lean. All float64 values are printed as math.Float64bits.
//
//   op   raw binary64 operations of the hardware (pins the rounding model)
//   enc / age / rcv   random event sequences on a real Prophet inside a real Core
//   fwd  forwarding decisions through the real Core (mock CLAs), sfb = direct SenderForBundle calls
//   stress   concurrent peer-appeared ‖ metadata-received ‖ ageing ‖ SenderForBundle ‖ serialising
//            the own vector, run in a CHILD process (the runtime's "concurrent map" error is fatal)

import (
	"bufio"
	"bytes"
	"encoding/json"
	"fmt"
	"io/ioutil"
	"math"
	"os"
	"os/exec"
	"path/filepath"
	"sort"
	"strconv"
	"strings"
	"sync"
	"sync/atomic"
	"testing"
	"time"

	"github.com/timshannon/badgerhold"

	"github.com/dtn7/dtn7-go/pkg/bpv7"
)

const c19Self = "self"

// Endpoint parsing compiles three regular expressions per call in dtn7; the harness caches.
var (
	c19EidMu    sync.Mutex
	c19EidCache = map[string]bpv7.EndpointID{}
)

func c19Eid(k string) bpv7.EndpointID {
	c19EidMu.Lock()
	defer c19EidMu.Unlock()
	if e, ok := c19EidCache[k]; ok {
		return e
	}
	u := strings.Replace(k, "+", "/", 1)
	if !strings.Contains(u, "/") {
		u += "/"
	}
	e := bpv7.MustNewEndpointID("dtn://" + u)
	c19EidCache[k] = e
	return e
}

func c19Key(e bpv7.EndpointID) string {
	s := strings.TrimPrefix(e.String(), "dtn://")
	s = strings.TrimSuffix(s, "/")
	return strings.Replace(s, "/", "+", -1)
}

func c19Bits(v float64) string { return fmt.Sprintf("%016x", math.Float64bits(v)) }

func c19Map(m map[bpv7.EndpointID]float64) string {
	if len(m) == 0 {
		return "-"
	}
	var parts []string
	for k, v := range m {
		parts = append(parts, c19Key(k)+":"+c19Bits(v))
	}
	sort.Strings(parts)
	return strings.Join(parts, ",")
}

func c19Keys(ks []string) string {
	if len(ks) == 0 {
		return "-"
	}
	ks = append([]string(nil), ks...)
	sort.Strings(ks)
	return strings.Join(ks, ",")
}

func c19Copy(m map[bpv7.EndpointID]float64) map[bpv7.EndpointID]float64 {
	c := make(map[bpv7.EndpointID]float64, len(m))
	for k, v := range m {
		c[k] = v
	}
	return c
}

// c19Val draws a probability from [0,1] with emphasis on the edges of the binary64 grid.
func c19Val(r *verifRng) float64 {
	switch r.intn(20) {
	case 0:
		return 0
	case 1:
		return 1
	case 2:
		return math.Float64frombits(1) // smallest subnormal
	case 3:
		return math.Float64frombits(0x000fffffffffffff) // largest subnormal
	case 4:
		return math.Float64frombits(0x0010000000000000) // smallest normal
	case 5:
		return 0.5
	case 6:
		return math.Nextafter(0.5, 0)
	case 7:
		return math.Nextafter(0.5, 1)
	case 8:
		return math.Nextafter(1, 0)
	case 9:
		return math.Float64frombits(r.next() % 0x0010000000000000) // random subnormal
	case 10:
		return 0.75
	case 11:
		return 0.25
	case 12:
		return 0.98
	case 13, 14:
		// uniform over all bit patterns of [0,1]: mostly tiny exponents (products underflow)
		return math.Float64frombits(r.next() % 0x3ff0000000000001)
	case 15:
		// close below 1
		return 1 - float64(r.next()>>11)/(1<<53)/float64(uint64(1)<<uint(r.intn(50)))
	default:
		return float64(r.next()>>11) / (1 << 53) // uniform in [0,1), 53 random bits
	}
}

type c19Cfg struct{ pinit, beta, gamma float64 }

func (c c19Cfg) String() string {
	return c19Bits(c.pinit) + " " + c19Bits(c.beta) + " " + c19Bits(c.gamma)
}

// c19World is one real Core with the Prophet algorithm and a set of mock peers.
type c19World struct {
	c     *Core
	p     *Prophet
	net   *verifNet
	mocks map[string]*verifMockCLA
	seq   uint64
	cfg   c19Cfg

	sfbBundles map[string]BundleDescriptor
	tmpl       map[string]bpv7.Bundle
}

func c19NewWorld(dir string, cfg c19Cfg, connected []string) (*c19World, error) {
	// The store fsyncs every write (badger's default); durability is irrelevant for C19 and costs
	// ~15 ms per write here, so it is switched off for the Cores of this harness only.
	oldSync := badgerhold.DefaultOptions.Options.SyncWrites
	oldTable := badgerhold.DefaultOptions.Options.MaxTableSize
	badgerhold.DefaultOptions.Options.SyncWrites = false
	badgerhold.DefaultOptions.Options.MaxTableSize = 4 << 20 // the default zeroes an 83 MB arena per Open
	defer func() {
		badgerhold.DefaultOptions.Options.SyncWrites = oldSync
		badgerhold.DefaultOptions.Options.MaxTableSize = oldTable
	}()
	c, err := verifNewCore(dir, "dtn://"+c19Self+"/", RoutingConf{Algorithm: "prophet",
		ProphetConf: ProphetConfig{PInit: cfg.pinit, Beta: cfg.beta, Gamma: cfg.gamma, AgeInterval: "10000h"}})
	if err != nil {
		return nil, err
	}
	// no background activity: the harness calls the cron bodies itself
	c.cron.Unregister("pending_bundles")
	c.cron.Unregister("clean_store")
	c.cron.Unregister("dtlsr_recompute") // sic: the name Prophet registers its ageing job under
	w := &c19World{c: c, p: c.routing.(*Prophet), net: &verifNet{}, mocks: map[string]*verifMockCLA{}, cfg: cfg}
	for _, k := range connected {
		w.connect(k)
	}
	return w, nil
}

// newProphet replaces the Core's routing algorithm by a fresh Prophet with other constants (one
// Core serves all configurations: opening a store costs more than a thousand events).
func (w *c19World) newProphet(cfg c19Cfg) {
	p := NewProphet(w.c, ProphetConfig{PInit: cfg.pinit, Beta: cfg.beta, Gamma: cfg.gamma, AgeInterval: "10000h"})
	w.c.cron.Unregister("dtlsr_recompute")
	w.c.SetRoutingAlgorithm(p)
	w.p, w.cfg = p, cfg
}

func (w *c19World) connect(k string) *verifMockCLA {
	if m, ok := w.mocks[k]; ok {
		return m
	}
	m := w.net.newCLA(k, c19Eid(k), true)
	w.mocks[k] = m
	w.c.claManager.Register(m)
	return m
}

func (w *c19World) disconnect(k string) {
	if m, ok := w.mocks[k]; ok {
		w.c.claManager.Unregister(m)
		delete(w.mocks, k)
	}
}

func (w *c19World) own() map[bpv7.EndpointID]float64 {
	w.p.dataMutex.RLock()
	defer w.p.dataMutex.RUnlock()
	return c19Copy(w.p.predictabilities)
}

func (w *c19World) peerVec(k string) (map[bpv7.EndpointID]float64, bool) {
	w.p.dataMutex.RLock()
	defer w.p.dataMutex.RUnlock()
	m, ok := w.p.peerPredictabilities[c19Eid(k)]
	return c19Copy(m), ok
}

// setState overwrites the algorithm's tables (keeping the map objects, as the code aliases them).
func (w *c19World) setState(own map[bpv7.EndpointID]float64, peers map[string]map[bpv7.EndpointID]float64) {
	w.p.dataMutex.Lock()
	defer w.p.dataMutex.Unlock()
	for k := range w.p.predictabilities {
		delete(w.p.predictabilities, k)
	}
	for k, v := range own {
		w.p.predictabilities[k] = v
	}
	for k := range w.p.peerPredictabilities {
		delete(w.p.peerPredictabilities, k)
	}
	for k, v := range peers {
		w.p.peerPredictabilities[c19Eid(k)] = c19Copy(v)
	}
}

func (w *c19World) stamp(b *bpv7.Bundle) {
	w.seq++
	b.PrimaryBlock.CreationTimestamp = bpv7.NewCreationTimestamp(bpv7.DtnTimeNow(), w.seq)
}

// metaBundle / dataBundle clone a template built once per (from, to[, prev]) — Build() re-validates
// every endpoint with freshly compiled regular expressions, far too slow for thousands of events.
func (w *c19World) metaBundle(from, to string, vec map[bpv7.EndpointID]float64) bpv7.Bundle {
	key := "m " + from + " " + to
	t, ok := w.tmpl[key]
	if !ok {
		var err error
		t, err = bpv7.Builder().
			Source(c19Eid(from)).
			Destination(c19Eid(to)).
			CreationTimestampNow().
			Lifetime("10m").
			BundleCtrlFlags(bpv7.MustNotFragmented).
			PayloadBlock(byte(1)).
			Canonical(bpv7.NewProphetBlock(map[bpv7.EndpointID]float64{})).
			Build()
		if err != nil {
			panic(err)
		}
		if w.tmpl == nil {
			w.tmpl = map[string]bpv7.Bundle{}
		}
		w.tmpl[key] = t
	}
	b := t
	b.CanonicalBlocks = append([]bpv7.CanonicalBlock(nil), t.CanonicalBlocks...)
	for i := range b.CanonicalBlocks {
		if b.CanonicalBlocks[i].TypeCode() == bpv7.ExtBlockTypeProphetBlock {
			b.CanonicalBlocks[i].Value = bpv7.NewProphetBlock(vec)
		}
	}
	w.stamp(&b)
	return b
}

func (w *c19World) dataBundle(from, to string, prev string) bpv7.Bundle {
	key := "d " + from + " " + to + " " + prev
	t, ok := w.tmpl[key]
	if !ok {
		bld := bpv7.Builder().
			Source(c19Eid(from)).
			Destination(c19Eid(to)).
			CreationTimestampNow().
			Lifetime("10m").
			PayloadBlock([]byte("c19"))
		if prev != "" {
			bld = bld.PreviousNodeBlock(c19Eid(prev))
		}
		var err error
		t, err = bld.Build()
		if err != nil {
			panic(err)
		}
		if w.tmpl == nil {
			w.tmpl = map[string]bpv7.Bundle{}
		}
		w.tmpl[key] = t
	}
	b := t
	b.CanonicalBlocks = append([]bpv7.CanonicalBlock(nil), t.CanonicalBlocks...)
	for i := range b.CanonicalBlocks {
		// forward() replaces the previous-node block's value in place: give every clone its own
		if pn, ok := b.CanonicalBlocks[i].Value.(*bpv7.PreviousNodeBlock); ok {
			b.CanonicalBlocks[i].Value = bpv7.NewPreviousNodeBlock(pn.Endpoint())
		}
	}
	w.stamp(&b)
	return b
}

// drained returns the prophet vectors found in the bundles handed to mocks since the last drain and
// the names of those mocks. (The id keeper renumbers locally originated bundles, so sends are
// attributed by time: nothing else runs — cron jobs unregistered, all calls synchronous.)
func (w *c19World) drained() (vecs []map[bpv7.EndpointID]float64, peers []string) {
	for _, s := range w.net.drain(true) {
		b, err := bpv7.ParseBundle(bytes.NewReader(s.Bytes))
		if err != nil {
			continue
		}
		peers = append(peers, s.Peer)
		if cb, err := b.ExtensionBlock(bpv7.ExtBlockTypeProphetBlock); err == nil {
			vecs = append(vecs, cb.Value.(*bpv7.ProphetBlock).GetPredictabilities())
		}
	}
	return
}

// ---- events (each returns its observation line) ----

func c19Guard(line *string, what string) {
	if r := recover(); r != nil {
		*line = "panic " + what + " " + strings.Replace(fmt.Sprint(r), " ", "_", -1)
	}
}

func (w *c19World) evEncounter(k string, full bool) (line string) {
	defer c19Guard(&line, "enc")
	pre := w.own()
	sent := "unobserved"
	if full {
		// ReportPeerAppeared: encounter + summary vector through SendBundle to the peer's mock CLA
		w.net.drain(false)
		m := w.connect(k)
		w.c.routing.ReportPeerAppeared(m)
		vecs, _ := w.drained()
		sent = "none"
		if len(vecs) == 1 {
			sent = c19Map(vecs[0])
		} else if len(vecs) > 1 {
			sent = "many"
		}
	} else {
		// the same update without the (slow, store-backed) metadata bundle
		w.p.dataMutex.Lock()
		w.p.encounter(c19Eid(k))
		w.p.dataMutex.Unlock()
	}
	return fmt.Sprintf("enc %s %s %s %s %s", w.cfg, c19Map(pre), k, c19Map(w.own()), sent)
}

func (w *c19World) evAge() (line string) {
	defer c19Guard(&line, "age")
	pre := w.own()
	w.p.ageCron()
	return fmt.Sprintf("age %s %s %s", w.cfg, c19Map(pre), c19Map(w.own()))
}

func (w *c19World) evReceive(from string, toMe bool, vec map[bpv7.EndpointID]float64, full bool) (line string) {
	defer c19Guard(&line, "rcv")
	pre := w.own()
	to := c19Self
	if !toMe {
		to = "elsewhere"
	}
	b := w.metaBundle(from, to, c19Copy(vec))
	if full {
		verifReceive(w.c, b, bpv7.DtnNone())
	} else {
		// the metadata branch of NotifyNewBundle does not touch the store
		w.p.NotifyNewBundle(BundleDescriptor{Id: b.ID(), Receiver: bpv7.DtnNone(), Timestamp: time.Now(),
			Constraints: map[Constraint]bool{}, Tags: map[Tag]struct{}{}, bndl: &b, store: w.c.store})
	}
	post := w.own()
	stored := "absent"
	if pv, ok := w.peerVec(from); ok {
		stored = c19Map(pv)
	}
	me := 0
	if toMe {
		me = 1
	}
	return fmt.Sprintf("rcv %s %s %d %s %s %s %s", w.cfg, c19Map(pre), me, from, c19Map(vec), c19Map(post), stored)
}

// evAdvertised: peer `from` advertises `vec1`, later `vec2` (both through the real NotifyNewBundle: summary vectors
// addressed to this node), then a data bundle for `dest` is submitted with that peer connected. The gate has to
// use what the peer advertises NOW (vec2): reported are the node's own values at that moment, vec2 and the peers
// that were offered the bundle.
func (w *c19World) evAdvertised(own map[bpv7.EndpointID]float64, from string, vec1, vec2 map[bpv7.EndpointID]float64,
	dest string) (line string) {
	defer c19Guard(&line, "adv")
	w.setState(own, nil)
	for k := range w.mocks {
		if k != from {
			w.disconnect(k)
		}
	}
	w.connect(from)
	for _, vec := range []map[bpv7.EndpointID]float64{vec1, vec2} {
		b := w.metaBundle(from, c19Self, c19Copy(vec))
		w.p.NotifyNewBundle(BundleDescriptor{Id: b.ID(), Receiver: bpv7.DtnNone(), Timestamp: time.Now(),
			Constraints: map[Constraint]bool{}, Tags: map[Tag]struct{}{}, bndl: &b, store: w.c.store})
	}
	ownNow := w.own()
	w.net.drain(false)
	b := w.dataBundle(c19Self, dest, "")
	w.c.SendBundle(&b)
	_, chosen := w.drained()
	return fmt.Sprintf("adv %s %s %s %s %s", c19Map(ownNow), from, c19Map(vec2), dest, c19Keys(chosen))
}

// ---- forwarding decisions ----

type c19FwdCase struct {
	meta      bool
	dest      string
	own       map[bpv7.EndpointID]float64
	peers     map[string]map[bpv7.EndpointID]float64 // absent = unknown peer
	connected []string
	prev      string // previous node of a received bundle ("" = locally originated)
}

func c19Peers(p map[string]map[bpv7.EndpointID]float64) string {
	if len(p) == 0 {
		return "-"
	}
	var parts []string
	for k, v := range p {
		parts = append(parts, k+"="+c19Map(v))
	}
	sort.Strings(parts)
	return strings.Join(parts, ";")
}

func (w *c19World) applyCase(fc c19FwdCase) {
	w.setState(fc.own, fc.peers)
	want := map[string]bool{}
	for _, k := range fc.connected {
		want[k] = true
		w.connect(k)
	}
	for k := range w.mocks {
		if !want[k] {
			w.disconnect(k)
		}
	}
	w.net.drain(false)
}

func (w *c19World) storedSent(id bpv7.BundleID) []string {
	bi, err := w.c.store.QueryId(id.Scrub())
	if err != nil {
		return []string{"?absent"}
	}
	var out []string
	if eids, ok := bi.Properties["routing/prophet/sent"].([]bpv7.EndpointID); ok {
		for _, e := range eids {
			out = append(out, c19Key(e))
		}
	}
	return out
}

// evForward pushes one bundle through the real pipeline and reports which mocks were offered it.
func (w *c19World) evForward(fc c19FwdCase) (line string) {
	defer c19Guard(&line, "fwd")
	w.applyCase(fc)
	var b bpv7.Bundle
	sentBefore := []string{}
	if fc.meta {
		b = w.metaBundle(c19Self, fc.dest, map[bpv7.EndpointID]float64{c19Eid("x"): 0.5})
		w.c.SendBundle(&b)
	} else if fc.prev == "" {
		b = w.dataBundle(c19Self, fc.dest, "")
		w.c.SendBundle(&b)
	} else {
		b = w.dataBundle("origin", fc.dest, fc.prev)
		sentBefore = []string{fc.prev}
		verifReceive(w.c, b, bpv7.DtnNone())
	}
	_, chosen := w.drained()
	meta := 0
	if fc.meta {
		meta = 1
	}
	return fmt.Sprintf("fwd %d %s %s %s %s %s %s %s", meta, fc.dest, c19Map(fc.own), c19Peers(fc.peers),
		c19Keys(fc.connected), c19Keys(sentBefore), c19Keys(chosen), c19Keys(w.storedSent(b.ID())))
}

// evSenderFor calls Prophet.SenderForBundle directly on a stored bundle with a prepared sent list.
// One stored bundle per (meta, dest) is reused; its sent list is rewritten before every call.
func (w *c19World) evSenderFor(fc c19FwdCase, sentBefore []string) (line string) {
	defer c19Guard(&line, "sfb")
	w.applyCase(fc)
	key := fmt.Sprintf("%v %s", fc.meta, fc.dest)
	bp, ok := w.sfbBundles[key]
	if !ok {
		var b bpv7.Bundle
		if fc.meta {
			b = w.metaBundle(c19Self, fc.dest, map[bpv7.EndpointID]float64{c19Eid("x"): 0.5})
		} else {
			b = w.dataBundle(c19Self, fc.dest, "")
		}
		bp = NewBundleDescriptorFromBundle(b, w.c.store)
		bp.AddConstraint(DispatchPending)
		_ = bp.Sync()
		if w.sfbBundles == nil {
			w.sfbBundles = map[string]BundleDescriptor{}
		}
		w.sfbBundles[key] = bp
	}
	bi, err := w.c.store.QueryId(bp.Id)
	if err != nil {
		return "# sfb: bundle not stored: " + err.Error()
	}
	eids := []bpv7.EndpointID{}
	for _, k := range sentBefore {
		eids = append(eids, c19Eid(k))
	}
	bi.Properties["routing/prophet/sent"] = eids
	if err := w.c.store.Update(bi); err != nil {
		return "# sfb: update failed: " + err.Error()
	}
	css, del := w.p.SenderForBundle(bp)
	var chosen []string
	for _, cs := range css {
		chosen = append(chosen, c19Key(cs.GetPeerEndpointID()))
	}
	meta, d := 0, 0
	if fc.meta {
		meta = 1
	}
	if del {
		d = 1
	}
	return fmt.Sprintf("sfb %d %s %s %s %s %s %s %d", meta, fc.dest, c19Map(fc.own), c19Peers(fc.peers),
		c19Keys(fc.connected), c19Keys(sentBefore), c19Keys(chosen), d)
}

// ---- raw operations ----

func c19Ops(out *bufio.Writer, r *verifRng, n int) {
	pick := func() float64 {
		if r.intn(8) == 0 {
			return math.Float64frombits(r.next() % 0x4000000000000000) // anything in [0,2)
		}
		return c19Val(r)
	}
	for i := 0; i < n; i++ {
		a, b := pick(), pick()
		switch r.intn(5) {
		case 0:
			fmt.Fprintf(out, "op add %s %s %s\n", c19Bits(a), c19Bits(b), c19Bits(a+b))
		case 1:
			if a < b {
				a, b = b, a
			}
			fmt.Fprintf(out, "op sub %s %s %s\n", c19Bits(a), c19Bits(b), c19Bits(a-b))
		case 2:
			fmt.Fprintf(out, "op sub %s %s %s\n", c19Bits(1), c19Bits(b), c19Bits(1-b))
		default:
			fmt.Fprintf(out, "op mul %s %s %s\n", c19Bits(a), c19Bits(b), c19Bits(a*b))
		}
	}
	// ties: x + y where y is exactly half an ulp of x (round half to even, both directions)
	for i := 0; i < n/20+8; i++ {
		x := 0.5 + float64(r.next()>>12)/(1<<53)
		h := math.Float64frombits(math.Float64bits(x)&0x7ff0000000000000) / (1 << 53) // ulp(x)/2
		fmt.Fprintf(out, "op add %s %s %s\n", c19Bits(x), c19Bits(h), c19Bits(x+h))
		fmt.Fprintf(out, "op sub %s %s %s\n", c19Bits(x), c19Bits(h/2), c19Bits(x-h/2))
		s := math.Float64frombits(r.next() % 0x0010000000000000)
		fmt.Fprintf(out, "op mul %s %s %s\n", c19Bits(s), c19Bits(0.5), c19Bits(s*0.5))
	}
}

// ---- stress (child process) ----

const c19ChildEnv = "VERIF_C19_CHILD"

// TestVerifC19Child is the body of the stress; it only runs when re-executed by the parent.
// Five goroutines: peer appeared ‖ metadata received ‖ ageing ‖ SenderForBundle ‖ sendMetadata.
// The three that do not write to the store run `iters` times; the two store-backed ones keep going
// until the others are done (and at least 40 rounds).
func TestVerifC19Child(t *testing.T) {
	spec := os.Getenv(c19ChildEnv)
	if spec == "" {
		t.Skip("not a child")
	}
	iters, _ := strconv.Atoi(spec)
	dir := os.Getenv("VERIF_C19_DIR")
	w, err := c19NewWorld(dir, c19Cfg{0.75, 0.25, 0.98}, []string{"n0", "n1", "n2", "n3"})
	if err != nil {
		t.Fatal(err)
	}
	keys := []string{"n0", "n1", "n2", "n3", "n4", "n5", "n6", "n7"}
	own := map[bpv7.EndpointID]float64{}
	for i, k := range keys {
		own[c19Eid(k)] = float64(i+1) / 16
	}
	w.setState(own, nil)
	data := w.dataBundle(c19Self, "n7", "")
	bp := NewBundleDescriptorFromBundle(data, w.c.store)
	bp.AddConstraint(DispatchPending)
	_ = bp.Sync()

	var light, heavy sync.WaitGroup
	var lightDone int32
	deadline := time.Now().Add(90 * time.Second)
	runLight := func(f func(i int)) {
		light.Add(1)
		go func() {
			defer light.Done()
			for i := 0; i < iters && time.Now().Before(deadline); i++ {
				f(i)
			}
		}()
	}
	runHeavy := func(f func(i int)) {
		heavy.Add(1)
		go func() {
			defer heavy.Done()
			for i := 0; (i < 40 || atomic.LoadInt32(&lightDone) == 0) && time.Now().Before(deadline); i++ {
				f(i)
			}
		}()
	}
	var seqMu sync.Mutex
	// metadata received: import + transitivity
	runLight(func(i int) {
		vec := map[bpv7.EndpointID]float64{}
		for j := 0; j < 6; j++ {
			vec[c19Eid(keys[(i+j)%len(keys)])] = float64(j+1) / 8
		}
		seqMu.Lock()
		b := w.metaBundle(keys[i%4], c19Self, vec)
		seqMu.Unlock()
		w.p.NotifyNewBundle(BundleDescriptor{Id: b.ID(), Receiver: bpv7.DtnNone(), Timestamp: time.Now(),
			Constraints: map[Constraint]bool{}, Tags: map[Tag]struct{}{}, bndl: &b, store: w.c.store})
	})
	// ageing
	runLight(func(i int) { w.p.ageCron() })
	// forwarding decision for a data bundle
	runLight(func(i int) { w.p.SenderForBundle(bp) })
	// peer appeared: encounter + summary vector handed to (and serialised by) the mock CLA
	runHeavy(func(i int) { w.c.routing.ReportPeerAppeared(w.mocks[keys[i%4]]) })
	// building + serialising the own vector
	runHeavy(func(i int) { w.p.sendMetadata(c19Eid(keys[i%4])) })
	light.Wait()
	atomic.StoreInt32(&lightDone, 1)
	heavy.Wait()
	fmt.Println("C19-CHILD-DONE")
}

// c19Stress runs the child and classifies its fate.
func c19Stress(race bool, iters int, scratch string) string {
	dir, err := ioutil.TempDir(scratch, "c19-stress-")
	if err != nil {
		return "# stress: " + err.Error()
	}
	defer os.RemoveAll(dir)
	cmd := exec.Command(os.Args[0], "-test.run", "^TestVerifC19Child$", "-test.count=1", "-test.v", "-test.timeout", "5m")
	cmd.Env = append(os.Environ(), c19ChildEnv+"="+strconv.Itoa(iters), "VERIF_C19_DIR="+dir, "VERIF_OUT=")
	outb, err := cmd.CombinedOutput()
	out := string(outb)
	outcome := "ok"
	raceInProphet := false
	for _, rep := range strings.Split(out, "==================") {
		if strings.Contains(rep, "DATA RACE") &&
			(strings.Contains(rep, "algorithm_prophet.go") || strings.Contains(rep, "extension_block_prophet.go")) &&
			strings.Contains(rep, "runtime.map") {
			raceInProphet = true
		}
	}
	switch {
	case strings.Contains(out, "fatal error: concurrent map"):
		outcome = "fatal-concurrent-map"
	case raceInProphet:
		outcome = "data-race"
	case !strings.Contains(out, "C19-CHILD-DONE"):
		outcome = "child-error"
		_ = err
	}
	r := 0
	if race {
		r = 1
	}
	line := fmt.Sprintf("stress %d 5 %d %s", r, iters, outcome)
	if outcome == "child-error" {
		tail := out
		if len(tail) > 1200 {
			tail = tail[len(tail)-1200:]
		}
		line += " " + strings.Replace(strings.Replace(tail, "\n", "|", -1), " ", "_", -1)
	}
	return line
}

// ---- replay of one observation line on the real code ----

func c19ParseMap(s string) map[bpv7.EndpointID]float64 {
	m := map[bpv7.EndpointID]float64{}
	if s == "-" || s == "" {
		return m
	}
	for _, kv := range strings.Split(s, ",") {
		p := strings.SplitN(kv, ":", 2)
		if len(p) != 2 {
			continue
		}
		b, _ := strconv.ParseUint(p[1], 16, 64)
		m[c19Eid(p[0])] = math.Float64frombits(b)
	}
	return m
}

func c19ParseKeys(s string) []string {
	if s == "-" || s == "" {
		return nil
	}
	return strings.Split(s, ",")
}

func c19ParsePeers(s string) map[string]map[bpv7.EndpointID]float64 {
	out := map[string]map[bpv7.EndpointID]float64{}
	if s == "-" || s == "" {
		return out
	}
	for _, e := range strings.Split(s, ";") {
		p := strings.SplitN(e, "=", 2)
		if len(p) == 2 {
			out[p[0]] = c19ParseMap(p[1])
		}
	}
	return out
}

func c19F(s string) float64 {
	b, _ := strconv.ParseUint(s, 16, 64)
	return math.Float64frombits(b)
}

func c19Replay(line string, scratch string, race bool) []string {
	f := strings.Fields(line)
	if len(f) == 0 {
		return nil
	}
	world := func(cfg c19Cfg) *c19World {
		dir, _ := ioutil.TempDir(scratch, "c19-replay-")
		w, err := c19NewWorld(dir, cfg, nil)
		if err != nil {
			panic(err)
		}
		return w
	}
	switch {
	case f[0] == "op" && len(f) == 5:
		a, b := c19F(f[2]), c19F(f[3])
		var r float64
		switch f[1] {
		case "add":
			r = a + b
		case "sub":
			r = a - b
		default:
			r = a * b
		}
		return []string{fmt.Sprintf("op %s %s %s %s", f[1], f[2], f[3], c19Bits(r))}
	case f[0] == "enc" && len(f) >= 6:
		w := world(c19Cfg{c19F(f[1]), c19F(f[2]), c19F(f[3])})
		defer w.c.Close()
		w.setState(c19ParseMap(f[4]), nil)
		return []string{w.evEncounter(f[5], true)}
	case f[0] == "age" && len(f) >= 5:
		w := world(c19Cfg{c19F(f[1]), c19F(f[2]), c19F(f[3])})
		defer w.c.Close()
		w.setState(c19ParseMap(f[4]), nil)
		return []string{w.evAge()}
	case f[0] == "rcv" && len(f) >= 8:
		w := world(c19Cfg{c19F(f[1]), c19F(f[2]), c19F(f[3])})
		defer w.c.Close()
		w.setState(c19ParseMap(f[4]), nil)
		return []string{w.evReceive(f[6], f[5] == "1", c19ParseMap(f[7]), true)}
	case (f[0] == "fwd" || f[0] == "sfb") && len(f) >= 7:
		w := world(c19Cfg{0.75, 0.25, 0.98})
		defer w.c.Close()
		fc := c19FwdCase{meta: f[1] == "1", dest: f[2], own: c19ParseMap(f[3]), peers: c19ParsePeers(f[4]),
			connected: c19ParseKeys(f[5])}
		sent := c19ParseKeys(f[6])
		if f[0] == "sfb" {
			return []string{w.evSenderFor(fc, sent)}
		}
		if len(sent) > 0 {
			fc.prev = sent[0]
		}
		return []string{w.evForward(fc)}
	case f[0] == "stress" && len(f) >= 4:
		it, _ := strconv.Atoi(f[3])
		return []string{c19Stress(race, it, scratch)}
	}
	return []string{"# replay: line not understood: " + line}
}

// ---- entry points ----

func c19Out(t *testing.T) (*os.File, *bufio.Writer) {
	outPath := os.Getenv("VERIF_OUT")
	if outPath == "" {
		t.Skip("VERIF_OUT not set")
	}
	f, err := os.Create(outPath)
	if err != nil {
		t.Fatal(err)
	}
	return f, bufio.NewWriter(f)
}

func c19Scratch() string {
	s := os.Getenv("VERIF_SCRATCH")
	if s == "" {
		s = os.TempDir()
	}
	return s
}

func TestVerifC19(t *testing.T) {
	f, out := c19Out(t)
	defer f.Close()
	defer out.Flush()
	scratch := c19Scratch()
	seed := verifSeed()
	r := &verifRng{s: seed*0x51ed2701 + 19}
	thorough := verifThorough()

	if rp := os.Getenv("VERIF_REPLAY"); rp != "" {
		raw, err := ioutil.ReadFile(rp)
		if err != nil {
			t.Fatal(err)
		}
		var rec struct {
			Input string `json:"minimal_input"`
		}
		if err := json.Unmarshal(raw, &rec); err != nil {
			t.Fatal(err)
		}
		for _, l := range c19Replay(rec.Input, scratch, false) {
			fmt.Fprintln(out, l)
		}
		return
	}

	// 0. the stress first (in the background, it is I/O bound): a crash is the loudest finding
	iters := 20000
	if thorough {
		iters = 200000
	}
	stressLine := make(chan string, 1)
	go func() { stressLine <- c19Stress(thorough, iters, scratch) }() // thorough = built with -race (checks/C19.json)

	// 1. raw operations
	t0 := time.Now()
	nOps := 4000
	if thorough {
		nOps = 60000
	}
	c19Ops(out, r, nOps)
	out.Flush()
	fmt.Fprintf(out, "# c19 time ops %v\n", time.Since(t0))
	t0 = time.Now()

	// 2. event sequences: a fresh Prophet per configuration (many short histories: the early steps,
	// where entries are created from 0, are the ones most sensitive to the operation order)
	nCfg, nSteps, fullEvery := 40, 200, 60
	if thorough {
		nCfg, nSteps, fullEvery = 200, 600, 40
	}
	peers := []string{"n0", "n1", "n2", "n3", "n4", "n5"}
	hist := map[string]int{}
	dir, err := ioutil.TempDir(scratch, "c19-core-")
	if err != nil {
		t.Fatal(err)
	}
	defer os.RemoveAll(dir)
	w, err := c19NewWorld(dir, c19Cfg{0.75, 0.25, 0.98}, nil)
	if err != nil {
		t.Fatal(err)
	}
	defer w.c.Close()
	for ci := 0; ci < nCfg; ci++ {
		cfg := c19Cfg{c19Val(r), c19Val(r), c19Val(r)}
		if ci%2 == 1 {
			// generic constants: full 53-bit mantissas (every product and sum really rounds)
			u := func() float64 { return float64(r.next()>>11) / (1 << 53) }
			cfg = c19Cfg{u(), u(), u()}
		}
		switch ci {
		case 0:
			cfg = c19Cfg{0.75, 0.25, 0.98} // the documented defaults
		case 1:
			cfg = c19Cfg{1, 1, 1}
		case 2:
			cfg = c19Cfg{math.Nextafter(1, 0), math.Nextafter(1, 0), math.Nextafter(1, 0)}
		case 3:
			cfg = c19Cfg{float64(r.next()>>11) / (1 << 53), float64(r.next()>>11) / (1 << 53), 1 - float64(r.next()>>11)/(1<<60)}
		case 4:
			cfg = c19Cfg{float64(r.next()>>11) / (1 << 53), 1, math.Nextafter(1, 0)}
		}
		w.newProphet(cfg)
		for s := 0; s < nSteps; s++ {
			var line string
			full := r.intn(fullEvery) == 0 // through the whole (store-backed) pipeline
			switch x := r.intn(10); {
			case x < 4:
				line = w.evEncounter(peers[r.intn(len(peers))], full)
			case x < 6:
				line = w.evAge()
			default:
				from := peers[r.intn(len(peers))]
				vec := map[bpv7.EndpointID]float64{}
				for n := r.intn(5); n > 0; n-- {
					var k string
					switch y := r.intn(10); {
					case y == 0:
						k = c19Self
					case y <= 2:
						k = from // the sender's own entry: the result depends on the iteration order
					default:
						k = peers[r.intn(len(peers))]
					}
					vec[c19Eid(k)] = c19Val(r)
					if r.intn(2) == 0 {
						vec[c19Eid(k)] = float64(r.next()>>11) / (1 << 53)
					}
				}
				line = w.evReceive(from, r.intn(8) != 0, vec, full)
			}
			op := strings.SplitN(line, " ", 2)[0]
			if full {
				op += "-full"
			}
			hist[op]++
			fmt.Fprintln(out, line)
		}
		out.Flush()
	}
	fmt.Fprintf(out, "# c19 time seq %v\n", time.Since(t0))
	t0 = time.Now()

	// 3. forwarding decisions: every ordering of (own, peer a, peer b) incl. ties, unknown peers,
	// vectors without the destination
	{
		w.newProphet(c19Cfg{0.75, 0.25, 0.98})
		pool := []float64{0, math.Float64frombits(1), math.Nextafter(0.5, 0), 0.5, math.Nextafter(0.5, 1), math.Nextafter(1, 0), 1}
		const absent, nokey = -1, -2
		ownOpts := []int{absent, 0, 1, 2, 3, 4, 5, 6}
		peerOpts := []int{absent, nokey, 0, 1, 2, 3, 4, 5, 6}
		mk := func(dest string, o, a, b int) c19FwdCase {
			fc := c19FwdCase{dest: dest, own: map[bpv7.EndpointID]float64{c19Eid("other"): 0.5},
				peers: map[string]map[bpv7.EndpointID]float64{}, connected: []string{"pa", "pb"}}
			if o >= 0 {
				fc.own[c19Eid(dest)] = pool[o]
			}
			for name, v := range map[string]int{"pa": a, "pb": b} {
				switch {
				case v == nokey:
					fc.peers[name] = map[bpv7.EndpointID]float64{c19Eid("other"): 1}
				case v >= 0:
					fc.peers[name] = map[bpv7.EndpointID]float64{c19Eid(dest): pool[v], c19Eid("other"): 0.25}
				}
			}
			return fc
		}
		variant := func(fc c19FwdCase, o, a, b int) c19FwdCase {
			switch r.intn(6) {
			case 0:
				fc.prev = "pa" // received from pa: pa is already in the sent list
			case 1:
				fc.connected = []string{"pa", "pb", "dd"} // destination connected: direct delivery
			case 2:
				fc2 := mk("dd+app", o, a, b) // a service endpoint: the tables are keyed by the full EID
				fc.dest, fc.own, fc.peers = "dd+app", fc2.own, fc2.peers
			}
			return fc
		}
		n := 0
		for _, o := range ownOpts {
			for _, a := range peerOpts {
				for _, b := range peerOpts {
					n++
					// SenderForBundle directly: the full cube (own × peer a × peer b)
					fc := variant(mk("dd", o, a, b), o, a, b)
					fc.prev = ""
					var sent []string
					if r.intn(3) == 0 {
						sent = []string{[]string{"pa", "pb"}[r.intn(2)]}
					}
					fmt.Fprintln(out, w.evSenderFor(fc, sent))
					// through the real Core (slow): quick = the (own × a) square with two b's each,
					// thorough = the full cube
					if thorough || (n+int(seed))%5 == 0 {
						fmt.Fprintln(out, w.evForward(variant(mk("dd", o, a, b), o, a, b)))
					}
				}
			}
		}
		// what a peer advertised earlier and no longer advertises must not open the gate
		for i := 0; i < 12; i++ {
			hi, lo := 0.5+float64(r.intn(400))/1000, float64(r.intn(200))/1000
			own := map[bpv7.EndpointID]float64{c19Eid("dd"): lo + 0.05, c19Eid("pa"): 0.3}
			vec1 := map[bpv7.EndpointID]float64{c19Eid("dd"): hi, c19Eid("zz"): 0.2}
			vec2 := map[bpv7.EndpointID]float64{c19Eid("zz"): 0.25}
			switch i % 3 {
			case 1:
				vec2[c19Eid("dd")] = lo // still listed, but now lower than our own value
			case 2:
				vec1, vec2 = vec2, vec1 // the other way round: the peer became a better forwarder
			}
			fmt.Fprintln(out, w.evAdvertised(own, "pa", vec1, vec2, "dd"))
		}
		// metadata bundles are never forwarded by the rule (only directly delivered)
		for i := 0; i < 6; i++ {
			fc := mk("dd", 0, 6, 6)
			fc.meta = true
			if i%3 == 0 {
				fc.connected = []string{"pa", "pb", "dd"}
			}
			fmt.Fprintln(out, w.evForward(fc))
			fmt.Fprintln(out, w.evSenderFor(fc, nil))
		}
		out.Flush()
	}
	fmt.Fprintf(out, "# c19 time fwd %v\n", time.Since(t0))
	t0 = time.Now()

	// 4. the outcome of the concurrency stress
	fmt.Fprintln(out, <-stressLine)
	fmt.Fprintf(out, "# c19 time stress-wait %v\n", time.Since(t0))
	fmt.Fprintf(out, "# c19 events %v\n", hist)
}

var _ = filepath.Join
