package routing

// Part of the C14 harness that reaches into unexported state of the IdKeeper (idk.data, idk.mutex,
// idk.autoClean, idk.clean) and of the Core (cron). It is listed under "optional_files" in
// checks/C14.json: when a refactoring of these internals breaks its compilation, bin/check reports
// the broken correspondence and still judges the API-level observations of verif_c14_test.go.

import (
	"fmt"
	"sort"
	"strings"
	"sync"
	"time"

	"github.com/dtn7/dtn7-go/pkg/bpv7"
)

func init() {
	verifC14Internal = c14InternalLines
	verifC14Quiesce = func(c *Core) {
		// the periodic retry (10 s) must not interleave with the scripted one when the machine is slow
		c.cron.Unregister("pending_bundles")
		c.cron.Unregister("clean_store")
	}
}

// c14InternalLines writes the idk / idkc observation lines.
func c14InternalLines(emit func(string), rng *verifRng, thorough bool, replay string) {
	nIdk := 60
	if thorough {
		nIdk = 400
	}
	for i := 0; i < nIdk; i++ {
		if replay != "" && replay != "idk" {
			break
		}
		emit(c14IdkLine(rng, i%2 == 0, 4+rng.intn(9)))
	}
	// directed: a tuple is numbered, not used for 25 h (resp. 23 h), another tuple is numbered (its autoClean runs) or
	// clean runs, the tuple is numbered again - for the epoch time, a recent and an old creation time
	for _, auto := range []bool{true, false} {
		for _, t := range []int64{0, -1, 259200000} {
			for _, idle := range []int64{90000000, 82800000} {
				if replay != "" && replay != "idk" {
					break
				}
				emit(c14IdkDirected(auto, t, idle))
			}
		}
	}
	// a busy node: the clock-less tuple is numbered, thousands of other tuples are numbered, the clock-less tuple is
	// numbered again - its counter must have survived whatever bounds the table
	for _, n := range []int{100, 5000} {
		if replay != "" && replay != "idkbig" {
			break
		}
		emit(c14IdkBig(n))
	}
	rounds := 40
	if thorough {
		rounds = 400
	}
	for k := 2; k <= 8; k++ {
		if replay != "" && replay != "idkc" {
			break
		}
		emit(c14IdkConc(k, 0, rounds))
		emit(c14IdkConc(k, uint64(bpv7.DtnTimeNow()), rounds))
	}
}

// ---------------------------------------------------------------- bare IdKeeper scripts

func c14IdkDump(idk *IdKeeper) string {
	idk.mutex.Lock()
	defer idk.mutex.Unlock()
	var items []string
	for tpl, n := range idk.data {
		items = append(items, fmt.Sprintf("%s~%d~%d", tpl.source.String(), uint64(tpl.time), n))
	}
	sort.Strings(items)
	if len(items) == 0 {
		return "-"
	}
	return strings.Join(items, "+")
}

// ages (ms) relative to the clock; none within 5 s of 86.4 s or 24 h (the two candidate windows)
var c14Ages = []int64{0, 1000, 60000, 80000, 93000, 3600000, 82800000, 90000000, 259200000, -10000}

func c14IdkLine(rng *verifRng, auto bool, nops int) string {
	idk := NewIdKeeper()
	idk.autoClean = auto
	base := int64(bpv7.DtnTimeNow())
	srcs := []string{c14Node, c14App}
	// a small pool of keys so that repetitions are frequent
	type key struct {
		src string
		t   uint64
	}
	var pool []key
	for i := 0; i < 3; i++ {
		age := c14Ages[rng.intn(len(c14Ages))]
		pool = append(pool, key{srcs[rng.intn(2)], uint64(base - age)})
	}
	pool = append(pool, key{srcs[rng.intn(2)], 0})
	var ops, outs []string
	idleSum := map[key]int64{}
	for i := 0; i < nops; i++ {
		now := uint64(bpv7.DtnTimeNow())
		if !auto && rng.intn(4) == 0 {
			idk.clean()
			ops = append(ops, fmt.Sprintf("c|%d", now))
			outs = append(outs, "-|"+c14IdkDump(&idk))
			continue
		}
		if rng.intn(5) == 0 {
			// time passes without use: the tuple's last use moves into the past (the clock cannot be advanced)
			k := pool[rng.intn(len(pool))]
			delta := c14Ages[rng.intn(len(c14Ages)-1)]
			// the clock is read by the code itself (a few ms after the reading noted here): keep the accumulated idle
			// time of a tuple away from the retention window, where that skew would decide
			if d := idleSum[k] + delta - 86400000; d > -10000 && d < 10000 {
				delta = 0
			}
			idleSum[k] += delta
			src, _ := bpv7.NewEndpointID(k.src)
			tpl := idTuple{source: src, time: bpv7.DtnTime(k.t)}
			idk.mutex.Lock()
			if u, ok := idk.used[tpl]; ok {
				idk.used[tpl] = u - bpv7.DtnTime(delta)
			}
			idk.mutex.Unlock()
			ops = append(ops, fmt.Sprintf("a|%s|%d|%d", k.src, k.t, delta))
			outs = append(outs, "-|"+c14IdkDump(&idk))
			continue
		}
		k := pool[rng.intn(len(pool))]
		b, err := c14Bundle(k.src, c14Dest, map[bool]string{true: "epoch", false: "now"}[k.t == 0], time.Now(), uint64(rng.intn(3)), "x")
		if err != nil {
			return "idk error build"
		}
		b.PrimaryBlock.CreationTimestamp[0] = k.t
		idk.update(&b)
		idleSum[k] = 0
		ops = append(ops, fmt.Sprintf("u|%s|%d|%d", k.src, k.t, now))
		outs = append(outs, fmt.Sprintf("%d|%s", b.PrimaryBlock.CreationTimestamp.SequenceNumber(), c14IdkDump(&idk)))
	}
	a := 0
	if auto {
		a = 1
	}
	return fmt.Sprintf("idk %d %s %s", a, strings.Join(ops, ","), strings.Join(outs, ","))
}

// c14IdkDirected: update k, update k, [idle], update of another tuple / clean, update k.
func c14IdkDirected(auto bool, age int64, idle int64) string {
	idk := NewIdKeeper()
	idk.autoClean = auto
	base := int64(bpv7.DtnTimeNow())
	t := uint64(0)
	if age != 0 {
		if age < 0 {
			age = 0
		}
		t = uint64(base - age)
	}
	var ops, outs []string
	upd := func(src string, ts uint64) bool {
		now := uint64(bpv7.DtnTimeNow())
		b, err := c14Bundle(src, c14Dest, map[bool]string{true: "epoch", false: "now"}[ts == 0], time.Now(), 0, "x")
		if err != nil {
			return false
		}
		b.PrimaryBlock.CreationTimestamp[0] = ts
		idk.update(&b)
		ops = append(ops, fmt.Sprintf("u|%s|%d|%d", src, ts, now))
		outs = append(outs, fmt.Sprintf("%d|%s", b.PrimaryBlock.CreationTimestamp.SequenceNumber(), c14IdkDump(&idk)))
		return true
	}
	if !upd(c14Node, t) || !upd(c14Node, t) {
		return "idk error build"
	}
	src, _ := bpv7.NewEndpointID(c14Node)
	tpl := idTuple{source: src, time: bpv7.DtnTime(t)}
	idk.mutex.Lock()
	if u, ok := idk.used[tpl]; ok {
		idk.used[tpl] = u - bpv7.DtnTime(idle)
	}
	idk.mutex.Unlock()
	ops = append(ops, fmt.Sprintf("a|%s|%d|%d", c14Node, t, idle))
	outs = append(outs, "-|"+c14IdkDump(&idk))
	if auto {
		if !upd(c14App, uint64(base)) {
			return "idk error build"
		}
	} else {
		now := uint64(bpv7.DtnTimeNow())
		idk.clean()
		ops = append(ops, fmt.Sprintf("c|%d", now))
		outs = append(outs, "-|"+c14IdkDump(&idk))
	}
	if !upd(c14Node, t) {
		return "idk error build"
	}
	a := 0
	if auto {
		a = 1
	}
	return fmt.Sprintf("idk %d %s %s", a, strings.Join(ops, ","), strings.Join(outs, ","))
}

// c14IdkBig: update of the epoch tuple, n updates of n different recent tuples, update of the epoch tuple.
func c14IdkBig(n int) string {
	idk := NewIdKeeper()
	num := func(src string, ts uint64) (uint64, bool) {
		b, err := c14Bundle(src, c14Dest, map[bool]string{true: "epoch", false: "now"}[ts == 0], time.Now(), 0, "x")
		if err != nil {
			return 0, false
		}
		b.PrimaryBlock.CreationTimestamp[0] = ts
		idk.update(&b)
		return b.PrimaryBlock.CreationTimestamp.SequenceNumber(), true
	}
	a, ok := num(c14Node, 0)
	if !ok {
		return "idkbig error build"
	}
	base := uint64(bpv7.DtnTimeNow())
	for i := 0; i < n; i++ {
		if _, ok := num(c14App, base-uint64(i)); !ok {
			return "idkbig error build"
		}
	}
	b, ok := num(c14Node, 0)
	if !ok {
		return "idkbig error build"
	}
	return fmt.Sprintf("idkbig %d %d %d", n, a, b)
}

// c14IdkConc: k goroutines update one key of a bare IdKeeper at once.
func c14IdkConc(k int, t uint64, rounds int) string {
	var all []string
	for r := 0; r < rounds; r++ {
		idk := NewIdKeeper()
		var wg sync.WaitGroup
		start := make(chan struct{})
		seqs := make([]uint64, k)
		for i := 0; i < k; i++ {
			b, err := c14Bundle(c14Node, c14Dest, map[bool]string{true: "epoch", false: "now"}[t == 0], time.Now(), 0, "x")
			if err != nil {
				return "idkc error build"
			}
			b.PrimaryBlock.CreationTimestamp[0] = t
			wg.Add(1)
			go func(i int, b bpv7.Bundle) {
				defer wg.Done()
				<-start
				idk.update(&b)
				seqs[i] = b.PrimaryBlock.CreationTimestamp.SequenceNumber()
			}(i, b)
		}
		close(start)
		wg.Wait()
		sort.Slice(seqs, func(i, j int) bool { return seqs[i] < seqs[j] })
		var ss []string
		for _, s := range seqs {
			ss = append(ss, fmt.Sprint(s))
		}
		all = append(all, strings.Join(ss, "|"))
	}
	return fmt.Sprintf("idkc %d %d %s", k, t, strings.Join(all, ","))
}

