package routing

// Correspondence harness for C18 (spray-and-wait / binary spray copy budget). Attached to the
// package with `go test -overlay`; never part of /repo. One history per output line, format in
// /verif/lean/Driver/C18.lean:
//
//   h <spray|binary> <L> <npeers> <event> <event> ...
//   event = <ev>/<fails>/<sched>/<sends>/<rem>/<sent>/<store>
//
// Everything left of the third '/' is the input (what the harness did), the rest is what the REAL
// code did: the mock CLAs' send log (peer:ok:BinarySprayBlock value parsed from the transmitted
// bytes), remainingCopies and sent read from the algorithm's bundleData, the store status.

import (
	"bufio"
	"bytes"
	"encoding/json"
	"fmt"
	"os"
	"path/filepath"
	"sort"
	"strconv"
	"strings"
	"sync"
	"testing"
	"time"

	"github.com/dtn7/dtn7-go/pkg/bpv7"
)

const (
	c18Node = "dtn://node/"
	c18Src  = "dtn://src/"
	c18Dst  = "dtn://dst/"
)

type c18Event struct {
	kind  byte   // S submit, R receive, U up, D down, T tick, X restart, O two overlapping retry ticks, L loop-back
	k     int    // R, L: BinarySprayBlock value, -1 = no block
	prev  int    // R, L: previous node (peer id), -1 = no PreviousNodeBlock
	peer  int    // U, D
	fails []int  // peers whose Send fails during this event
	sched string // "" or a word over {a,b}: forced order of the two failure reports' read / write-back steps
}

type c18Hist struct {
	alg string // spray | binary
	l   int
	n   int // peers 0..n-1; peer 0 is the bundle's destination node
	evs []c18Event
}

func c18PeerEid(i int) bpv7.EndpointID {
	if i == 0 {
		return bpv7.MustNewEndpointID(c18Dst)
	}
	return bpv7.MustNewEndpointID(fmt.Sprintf("dtn://p%d/", i))
}

func c18PeerOf(eid bpv7.EndpointID) string {
	s := eid.String()
	if s == c18Dst {
		return "0"
	}
	if strings.HasPrefix(s, "dtn://p") {
		return strings.TrimSuffix(strings.TrimPrefix(s, "dtn://p"), "/")
	}
	return "?" + s
}

func c18Ints(xs []int) string {
	if len(xs) == 0 {
		return "-"
	}
	var ss []string
	for _, x := range xs {
		ss = append(ss, strconv.Itoa(x))
	}
	return strings.Join(ss, ".")
}

func (e c18Event) input() string {
	var ev string
	switch e.kind {
	case 'S', 'T', 'X', 'O':
		ev = string(e.kind)
	case 'R', 'L':
		k, p := "-", "-"
		if e.k >= 0 {
			k = strconv.Itoa(e.k)
		}
		if e.prev >= 0 {
			p = strconv.Itoa(e.prev)
		}
		ev = string(e.kind) + ":" + k + ":" + p
	case 'U', 'D':
		ev = fmt.Sprintf("%c:%d", e.kind, e.peer)
	}
	sched := e.sched
	if sched == "" {
		sched = "-"
	}
	return ev + "/" + c18Ints(e.fails) + "/" + sched
}

// ---- the node under test -----------------------------------------------------------------------

type c18World struct {
	dir   string
	conf  RoutingConf
	c     *Core
	stamp uint64 // per-world counter making creation timestamps (hence bundle ids) distinct
	notes []string
}

func c18NewWorld(dir, alg string, l int) (*c18World, error) {
	a := "spray"
	if alg == "binary" {
		a = "binary_spray"
	}
	w := &c18World{dir: dir, conf: RoutingConf{Algorithm: a, SprayConf: SprayConfig{Multiplicity: uint64(l)}}}
	c, err := verifNewCore(dir, c18Node, w.conf)
	if err != nil {
		return nil, err
	}
	w.c = c
	c18StopCron(c)
	return w, nil
}

// c18StopCron removes the periodic jobs: the harness calls the retry body itself, a cron-driven
// checkPendingBundles in the middle of a history would be a second, concurrent forward() of the bundle.
func c18StopCron(c *Core) {
	for _, name := range []string{"pending_bundles", "clean_store", "spray_and_wait_gc", "binary_spray_gc"} {
		c.cron.Unregister(name)
	}
}

func (w *c18World) restart() error {
	w.c.Close()
	c, err := verifNewCore(w.dir, c18Node, w.conf)
	if err != nil {
		return err
	}
	w.c = c
	c18StopCron(c)
	return nil
}

// meta reads the algorithm's bookkeeping directly. Each history clears the map first, so there is at
// most one entry (this does not depend on which form of the bundle id is used as the key).
func (w *c18World) meta() (rem string, sent string) {
	var md map[bpv7.BundleID]sprayMetaData
	var mu *sync.RWMutex
	switch a := w.c.routing.(type) {
	case *SprayAndWait:
		md, mu = a.bundleData, &a.dataMutex
	case *BinarySpray:
		md, mu = a.bundleData, &a.dataMutex
	default:
		return "?", "?"
	}
	mu.RLock()
	defer mu.RUnlock()
	if len(md) == 0 {
		return "x", "x"
	}
	if len(md) > 1 {
		return "many", "many"
	}
	for _, m := range md {
		var ss []string
		for _, e := range m.sent {
			ss = append(ss, c18PeerOf(e))
		}
		sort.Strings(ss)
		sent = strings.Join(ss, ".")
		if sent == "" {
			sent = "-"
		}
		return strconv.FormatUint(m.remainingCopies, 10), sent
	}
	return
}

func (w *c18World) clearMeta() {
	switch a := w.c.routing.(type) {
	case *SprayAndWait:
		a.dataMutex.Lock()
		a.bundleData = make(map[bpv7.BundleID]sprayMetaData)
		a.dataMutex.Unlock()
	case *BinarySpray:
		a.dataMutex.Lock()
		a.bundleData = make(map[bpv7.BundleID]sprayMetaData)
		a.dataMutex.Unlock()
	}
}

// storeState: g = not in the store, p = stored and pending, n = stored, not pending.
func (w *c18World) storeState(id bpv7.BundleID) string {
	for _, cand := range []bpv7.BundleID{id} {
		if bi, err := w.c.store.QueryId(cand.Scrub()); err == nil {
			if bi.Pending {
				return "p"
			}
			return "n"
		}
	}
	// the id under which the bundle is stored may carry the sequence number (or not): look at all pending ones
	if bis, err := w.c.store.QueryPending(); err == nil && len(bis) > 0 {
		return "p"
	}
	return "g"
}

func (w *c18World) purgeStore() {
	if bis, err := w.c.store.QueryPending(); err == nil {
		for _, bi := range bis {
			_ = w.c.store.Delete(bi.BId)
		}
	}
}

func (w *c18World) bundle(src string, k, prev int) (bpv7.Bundle, error) {
	w.stamp++
	bld := bpv7.Builder().
		CRC(bpv7.CRC32).
		Source(src).
		Destination(c18Dst).
		CreationTimestampTime(time.Now().Add(-time.Duration(w.stamp) * 7 * time.Millisecond)).
		Lifetime("24h").
		PayloadBlock([]byte("verif c18"))
	if prev >= 0 {
		bld = bld.PreviousNodeBlock(c18PeerEid(prev))
	}
	if k >= 0 {
		bld = bld.Canonical(bpv7.NewBinarySprayBlock(uint64(k)))
	}
	b, err := bld.Build()
	if err != nil {
		return b, err
	}
	b.PrimaryBlock.CreationTimestamp[1] = 1000 + w.stamp
	return b, nil
}

// ---- forced interleaving of two failure reports ------------------------------------------------

type c18Ctl struct {
	inGate  chan string        // a gated Send has been entered (peer name)
	gates   map[string]chan struct{}
	arrived chan chan struct{} // a goroutine reached the ":read" point and parks on the sent channel
	written chan struct{}      // a goroutine reached the ":written" point
	done    chan struct{}      // the event's action has returned
	timeout bool
}

const c18ParkWait = 40 * time.Millisecond // a step the locks make infeasible is given up after this
const c18Long = 20 * time.Second

// run drives the two failure threads (index 0 = peer names[0], 1 = names[1]) according to word.
func (ctl *c18Ctl) run(names []string, word string) {
	// wait until the sends are inside the mock: the first may take long (the event has to reach
	// forward first), the others are started in the same loop
	present := map[string]bool{}
	for i := 0; i < len(names); i++ {
		wait := c18Long
		if i > 0 {
			wait = time.Second
		}
		select {
		case n := <-ctl.inGate:
			present[n] = true
		case <-ctl.done: // forward is over: nobody else will come
		case <-time.After(wait):
			ctl.timeout = true
		}
	}
	state := make([]int, len(names)) // 0 in gate, 1 released but not parked, 2 parked, 4 done
	park := make([]chan struct{}, len(names))
	for t, n := range names {
		if !present[n] {
			state[t] = 4 // the node did not send to this peer at all
			close(ctl.gates[n])
		}
	}
	waitWritten := func() {
		select {
		case <-ctl.written:
		case <-time.After(c18Long):
			ctl.timeout = true
		}
	}
	// step gives thread t its next step: leave the mock's Send and run up to the ":read" point (R),
	// or leave the ":read" point and run to the end of ReportFailure (W). A thread that does not reach
	// the ":read" point in time is blocked by the lock (the repaired code holds it across the point):
	// the step is then infeasible and skipped, the thread catches up as soon as it can.
	step := func(t int, patient bool) {
		switch state[t] {
		case 0:
			close(ctl.gates[names[t]])
			select {
			case ch := <-ctl.arrived:
				park[t], state[t] = ch, 2
			case <-time.After(c18ParkWait):
				state[t] = 1
			}
		case 1:
			wait := c18ParkWait
			if patient {
				wait = c18Long
			}
			select {
			case ch := <-ctl.arrived:
				close(ch)
				waitWritten()
				state[t] = 4
			case <-time.After(wait):
				if patient {
					ctl.timeout = true
					state[t] = 4
				}
			}
		case 2:
			close(park[t])
			waitWritten()
			state[t] = 4
		}
	}
	for _, ch := range word {
		t := int(ch - 'a')
		if t >= 0 && t < len(names) {
			step(t, false)
		}
	}
	// let everybody finish: a parked thread first, it may hold the lock another one waits for
	for round := 0; round < 3; round++ {
		for t := range names {
			if state[t] == 2 {
				step(t, true)
			}
		}
		for t := range names {
			if state[t] != 4 && state[t] != 2 {
				step(t, true)
			}
		}
	}
}

// c18Loopback: the bundle that is in the store is received AGAIN — the node's own bundle looped back
// by a peer, or a relayed bundle arriving from a second peer — through the calls Core.handler makes
// for a ReceivedBundle message. The duplicate is the stored bundle with a PreviousNodeBlock of the
// sending peer and, if e.k >= 0, a BinarySprayBlock announcing e.k copies. Nothing happens if the
// bundle is not in the store (any more): then the reception would be a new entry, not a loop-back.
func c18Loopback(w *c18World, e c18Event) string {
	bis, err := w.c.store.QueryPending()
	if err != nil || len(bis) == 0 {
		return ""
	}
	stored, err := bis[0].Parts[0].Load()
	if err != nil {
		return "loaderr " + err.Error()
	}
	// a private copy: re-parse the serialised form
	dup, err := bpv7.ParseBundle(bytes.NewReader(verifBundleBytes(stored)))
	if err != nil {
		return "parseerr " + err.Error()
	}
	if e.prev >= 0 {
		if pn, err := dup.ExtensionBlock(bpv7.ExtBlockTypePreviousNodeBlock); err == nil {
			pn.Value = bpv7.NewPreviousNodeBlock(c18PeerEid(e.prev))
		} else {
			dup.AddExtensionBlock(bpv7.NewCanonicalBlock(0, 0, bpv7.NewPreviousNodeBlock(c18PeerEid(e.prev))))
		}
	}
	if e.k >= 0 {
		if sb, err := dup.ExtensionBlock(bpv7.ExtBlockTypeBinarySprayBlock); err == nil {
			sb.Value.(*bpv7.BinarySprayBlock).SetCopies(uint64(e.k))
		} else {
			dup.AddExtensionBlock(bpv7.NewCanonicalBlock(0, 0, bpv7.NewBinarySprayBlock(uint64(e.k))))
		}
	}
	if dup.ID() != stored.ID() {
		return "loopback-id-differs"
	}
	verifReceive(w.c, dup, bpv7.DtnNone())
	return ""
}

// c18Overlap runs two retry ticks for the pending bundle at once, the way the cron job and a
// PeerAppeared message do in a running daemon: the first run is parked right after SenderForBundle has
// read the bundle's metadata, the second one starts. If the second one gets to read the metadata too
// (nothing keeps it out), it runs to its end before the first continues: both decide on the same
// state. If it is kept out by the lock, the first is released after a short while and the two runs
// are simply sequential.
func c18Overlap(w *c18World) (res string) {
	arrived := make(chan chan struct{}, 4)
	second := make(chan struct{}, 4)
	var mu sync.Mutex
	cnt := 0
	verifSched = func(name string) {
		if !strings.HasSuffix(name, "SenderForBundle:read") {
			return
		}
		mu.Lock()
		cnt++
		first := cnt == 1
		mu.Unlock()
		if first {
			ch := make(chan struct{})
			arrived <- ch
			select {
			case <-ch:
			case <-time.After(c18Long):
			}
		} else {
			select {
			case second <- struct{}{}:
			default:
			}
		}
	}
	defer func() { verifSched = nil }()
	var resMu sync.Mutex
	tick := func(done chan struct{}) {
		defer close(done)
		defer func() {
			if r := recover(); r != nil {
				resMu.Lock()
				res = fmt.Sprintf("panic %v", r)
				resMu.Unlock()
			}
		}()
		w.c.checkPendingBundles()
	}
	wait := func(ch chan struct{}) {
		select {
		case <-ch:
		case <-time.After(2 * c18Long):
			w.notes = append(w.notes, "overlap-timeout")
		}
	}
	doneA, doneB := make(chan struct{}), make(chan struct{})
	go tick(doneA)
	var park chan struct{}
	select {
	case park = <-arrived:
	case <-doneA: // the algorithm was not consulted (direct delivery, nothing pending)
	case <-time.After(c18Long):
		w.notes = append(w.notes, "overlap-timeout")
	}
	go tick(doneB)
	if park != nil {
		select {
		case <-second:
			wait(doneB)
		case <-doneB:
		case <-time.After(5 * c18ParkWait):
		}
		close(park)
	}
	wait(doneA)
	wait(doneB)
	resMu.Lock()
	defer resMu.Unlock()
	return res
}

// ---- running one history -----------------------------------------------------------------------

func c18Run(w *c18World, h c18Hist) string {
	w.purgeStore()
	w.clearMeta()
	net := &verifNet{}
	mocks := make([]*verifMockCLA, h.n)
	for i := range mocks {
		mocks[i] = net.newCLA(fmt.Sprintf("c18-%d", i), c18PeerEid(i), true)
	}
	up := make([]bool, h.n)
	defer func() {
		for i, m := range mocks {
			if up[i] {
				verifPeerDown(w.c, m)
			}
		}
	}()

	var out strings.Builder
	fmt.Fprintf(&out, "h %s %d %d", h.alg, h.l, h.n)
	var id bpv7.BundleID
	for _, e := range h.evs {
		failing := map[int]bool{}
		for _, f := range e.fails {
			failing[f] = true
		}
		for i, m := range mocks {
			m.setDefault(!failing[i])
		}

		var ctl *c18Ctl
		var ctlNames []string
		if e.sched != "" && len(e.fails) == 2 {
			ctl = &c18Ctl{inGate: make(chan string, 8), gates: map[string]chan struct{}{},
				arrived: make(chan chan struct{}, 8), written: make(chan struct{}, 8)}
			fs := append([]int(nil), e.fails...)
			sort.Ints(fs)
			for _, f := range fs {
				name := mocks[f].name
				ctlNames = append(ctlNames, name)
				g := make(chan struct{})
				ctl.gates[name] = g
				mocks[f].mu.Lock()
				mocks[f].gate = func(m *verifMockCLA, n int) {
					ctl.inGate <- m.name
					select {
					case <-g:
					case <-time.After(c18Long):
					}
				}
				mocks[f].mu.Unlock()
			}
			verifSched = func(name string) {
				if strings.HasSuffix(name, "ReportFailure:read") {
					ch := make(chan struct{})
					ctl.arrived <- ch
					select {
					case <-ch:
					case <-time.After(c18Long):
					}
				} else if strings.HasSuffix(name, "ReportFailure:written") {
					ctl.written <- struct{}{}
				}
			}
		}

		action := func() (res string) {
			defer func() {
				if r := recover(); r != nil {
					res = fmt.Sprintf("panic %v", r)
				}
			}()
			switch e.kind {
			case 'S':
				b, err := w.bundle(c18Node, -1, -1)
				if err != nil {
					return "builderr " + err.Error()
				}
				id = b.ID()
				w.c.SendBundle(&b)
			case 'R':
				b, err := w.bundle(c18Src, e.k, e.prev)
				if err != nil {
					return "builderr " + err.Error()
				}
				id = b.ID()
				verifReceive(w.c, b, bpv7.DtnNone())
			case 'U':
				verifPeerUp(w.c, mocks[e.peer])
				up[e.peer] = true
			case 'D':
				verifPeerDown(w.c, mocks[e.peer])
				up[e.peer] = false
			case 'T':
				w.c.checkPendingBundles()
			case 'L':
				if r := c18Loopback(w, e); r != "" {
					return r
				}
			case 'O':
				if r := c18Overlap(w); r != "" {
					return r
				}
			case 'X':
				for i, m := range mocks {
					if up[i] {
						verifPeerDown(w.c, m)
						up[i] = false
					}
				}
				if err := w.restart(); err != nil {
					return "restarterr " + err.Error()
				}
			}
			return ""
		}

		var res string
		if ctl != nil {
			done := make(chan struct{})
			ctl.done = done
			go func() { res = action(); close(done) }()
			ctl.run(ctlNames, e.sched)
			select {
			case <-done:
			case <-time.After(2 * c18Long):
				ctl.timeout = true
				<-done
			}
			verifSched = nil
			for _, f := range e.fails {
				mocks[f].mu.Lock()
				mocks[f].gate = nil
				mocks[f].mu.Unlock()
			}
			if ctl.timeout {
				w.notes = append(w.notes, "sched-timeout "+e.input())
			}
		} else {
			res = action()
		}

		// observations
		var sends []string
		for _, s := range net.drain(true) {
			blk := "-"
			if pb, err := bpv7.ParseBundle(bytes.NewReader(s.Bytes)); err != nil {
				blk = "unparsable"
			} else if cb, err := pb.ExtensionBlock(bpv7.ExtBlockTypeBinarySprayBlock); err == nil {
				blk = strconv.FormatUint(cb.Value.(*bpv7.BinarySprayBlock).RemainingCopies(), 10)
			}
			ok := 0
			if s.Ok {
				ok = 1
			}
			sends = append(sends, fmt.Sprintf("%s:%d:%s", strings.TrimPrefix(s.Peer, "c18-"), ok, blk))
		}
		sort.Strings(sends)
		sl := strings.Join(sends, ",")
		if sl == "" {
			sl = "-"
		}
		if res != "" {
			sl = strings.ReplaceAll(res, " ", "_")
			sl = strings.ReplaceAll(sl, "/", "_")
		}
		rem, sent := w.meta()
		fmt.Fprintf(&out, " %s/%s/%s/%s/%s", e.input(), sl, rem, sent, w.storeState(id))
	}
	return out.String()
}

// ---- generators --------------------------------------------------------------------------------

// c18Subsets lists all subsets of xs.
func c18Subsets(xs []int) [][]int {
	res := [][]int{nil}
	for _, x := range xs {
		n := len(res)
		for i := 0; i < n; i++ {
			res = append(res, append(append([]int(nil), res[i]...), x))
		}
	}
	return res
}

// c18Exhaustive enumerates every history  entry · e1 · … · e_depth  over the peers 0..n-1 (a line
// carries the observations after every event, so the shorter histories are covered as prefixes).
// Failure sets range over the subsets of the peers connected while the event runs.
func c18Exhaustive(alg string, l, n, depth int, entries []c18Event, withRestart bool, emit func(c18Hist)) {
	var rec func(evs []c18Event, up []bool, d int)
	conn := func(up []bool) []int {
		var c []int
		for i, u := range up {
			if u {
				c = append(c, i)
			}
		}
		return c
	}
	rec = func(evs []c18Event, up []bool, d int) {
		if d == 0 {
			emit(c18Hist{alg: alg, l: l, n: n, evs: append([]c18Event(nil), evs...)})
			return
		}
		for i := 0; i < n; i++ {
			if up[i] {
				up[i] = false
				rec(append(evs, c18Event{kind: 'D', peer: i}), up, d-1)
				up[i] = true
			} else {
				up[i] = true
				for _, fs := range c18Subsets(conn(up)) {
					rec(append(evs, c18Event{kind: 'U', peer: i, fails: fs}), up, d-1)
				}
				up[i] = false
			}
		}
		if len(conn(up)) > 0 {
			for _, fs := range c18Subsets(conn(up)) {
				rec(append(evs, c18Event{kind: 'T', fails: fs}), up, d-1)
			}
		}
		// the bundle comes back from peer 1 (binary spray: announcing 3 copies)
		lk := -1
		if alg == "binary" {
			lk = 3
		}
		rec(append(evs, c18Event{kind: 'L', k: lk, prev: 1}), up, d-1)
		if withRestart && d >= 2 {
			rec(append(evs, c18Event{kind: 'X'}), make([]bool, n), d-1)
		}
	}
	for _, en := range entries {
		rec([]c18Event{en}, make([]bool, n), depth)
	}
}

func c18Random(r *verifRng, alg string, l int) c18Hist {
	n := r.intn(7) // 0..6 peers
	if n > 0 && r.intn(4) == 0 {
		n = 1 + r.intn(6)
	}
	h := c18Hist{alg: alg, l: l, n: n}
	up := make([]bool, n)
	conn := func() []int {
		var c []int
		for i, u := range up {
			if u {
				c = append(c, i)
			}
		}
		return c
	}
	randFails := func() []int {
		var fs []int
		p := r.intn(4) // 0: none fail, 1..: each connected peer fails with probability p/4
		for _, i := range conn() {
			if r.intn(4) < p {
				fs = append(fs, i)
			}
		}
		return fs
	}
	// some peers are already connected when the bundle enters the node
	pre := r.intn(3)
	for i := 0; i < n && pre > 0; i++ {
		if r.intn(2) == 0 {
			h.evs = append(h.evs, c18Event{kind: 'U', peer: i})
			up[i] = true
		}
	}
	if r.intn(3) != 0 {
		h.evs = append(h.evs, c18Event{kind: 'S', fails: randFails()})
	} else {
		e := c18Event{kind: 'R', k: -1, prev: -1, fails: randFails()}
		if alg == "binary" && r.intn(8) != 0 {
			e.k = r.intn(10)
			if r.intn(4) == 0 {
				e.k = r.intn(3)
			}
		}
		if n > 1 && r.intn(2) == 0 {
			e.prev = 1 + r.intn(n-1)
		}
		h.evs = append(h.evs, e)
	}
	steps := 1 + r.intn(9)
	for s := 0; s < steps; s++ {
		switch x := r.intn(10); {
		case x < 4 && n > 0:
			i := r.intn(n)
			if up[i] {
				h.evs = append(h.evs, c18Event{kind: 'D', peer: i})
				up[i] = false
			} else {
				up[i] = true
				h.evs = append(h.evs, c18Event{kind: 'U', peer: i, fails: randFails()})
			}
		case x == 4:
			e := c18Event{kind: 'L', k: -1, prev: -1}
			if n > 1 {
				e.prev = 1 + r.intn(n-1)
			}
			if alg == "binary" && r.intn(4) != 0 {
				e.k = r.intn(10)
			}
			h.evs = append(h.evs, e)
		case x < 9:
			h.evs = append(h.evs, c18Event{kind: 'T', fails: randFails()})
		default:
			if r.intn(10) == 0 {
				h.evs = append(h.evs, c18Event{kind: 'X'})
				for i := range up {
					up[i] = false
				}
			} else {
				h.evs = append(h.evs, c18Event{kind: 'T', fails: randFails()})
			}
		}
	}
	return h
}

// c18Directed: a few fixed stories per (algorithm, L) that the random part only reaches by luck.
func c18Directed(alg string, l int, emit func(c18Hist)) {
	// the destination is in reach but every direct delivery fails, l+1 times; then it leaves and
	// foreign peers appear one by one
	h := c18Hist{alg: alg, l: l, n: 7, evs: []c18Event{{kind: 'U', peer: 0}, {kind: 'S', fails: []int{0}}}}
	for i := 0; i < l; i++ {
		h.evs = append(h.evs, c18Event{kind: 'T', fails: []int{0}})
	}
	h.evs = append(h.evs, c18Event{kind: 'D', peer: 0})
	for i := 1; i <= 6; i++ {
		h.evs = append(h.evs, c18Event{kind: 'U', peer: i})
	}
	emit(h)
	// all foreign peers are there at submission time; then the destination shows up
	h = c18Hist{alg: alg, l: l, n: 7}
	for i := 1; i <= 6; i++ {
		h.evs = append(h.evs, c18Event{kind: 'U', peer: i})
	}
	h.evs = append(h.evs, c18Event{kind: 'S'}, c18Event{kind: 'T'}, c18Event{kind: 'T'}, c18Event{kind: 'U', peer: 0})
	emit(h)
	// every transmission fails twice before it succeeds
	h = c18Hist{alg: alg, l: l, n: 7}
	all := []int{1, 2, 3, 4, 5, 6}
	for i := 1; i <= 6; i++ {
		h.evs = append(h.evs, c18Event{kind: 'U', peer: i})
	}
	h.evs = append(h.evs, c18Event{kind: 'S', fails: all}, c18Event{kind: 'T', fails: all},
		c18Event{kind: 'T', fails: []int{2, 4, 6}}, c18Event{kind: 'T', fails: []int{1}}, c18Event{kind: 'T'}, c18Event{kind: 'T'},
		c18Event{kind: 'T'})
	emit(h)
	// the node's own bundle loops back after one / two peers were served, retries and new peers follow
	lk := -1
	if alg == "binary" {
		lk = 2 * l
	}
	emit(c18Hist{alg: alg, l: l, n: 6, evs: []c18Event{{kind: 'S'}, {kind: 'U', peer: 1}, {kind: 'L', k: lk, prev: 1},
		{kind: 'T'}, {kind: 'U', peer: 2}, {kind: 'L', k: lk, prev: 2}, {kind: 'T'}, {kind: 'U', peer: 3}, {kind: 'U', peer: 4},
		{kind: 'L', k: -1, prev: -1}, {kind: 'T'}, {kind: 'U', peer: 5}}})
	// a relayed bundle arrives a second time, from another peer, announcing more copies
	rk := -1
	if alg == "binary" {
		rk = l + 1
	}
	emit(c18Hist{alg: alg, l: l, n: 5, evs: []c18Event{{kind: 'R', k: rk, prev: 1}, {kind: 'U', peer: 2, fails: []int{2}},
		{kind: 'L', k: lk, prev: 3}, {kind: 'T'}, {kind: 'U', peer: 3}, {kind: 'L', k: lk, prev: 2}, {kind: 'T'},
		{kind: 'U', peer: 4}, {kind: 'U', peer: 0}}})
	// a relay: received from peer 1 (copies as announced), foreign peers around, failures, restart
	for i, k := range []int{2*l + 1, 1, 2, l} {
		kk := k
		if alg == "spray" {
			kk = -1
		}
		h = c18Hist{alg: alg, l: l, n: 5, evs: []c18Event{{kind: 'U', peer: 1}, {kind: 'U', peer: 2},
			{kind: 'R', k: kk, prev: 1, fails: []int{2}}, {kind: 'T'}, {kind: 'U', peer: 3, fails: []int{3}},
			{kind: 'U', peer: 4}, {kind: 'T'}, {kind: 'U', peer: 0, fails: []int{0}}, {kind: 'T', fails: []int{0}},
			{kind: 'D', peer: 0}, {kind: 'T'}}}
		if i == 0 {
			h.evs = append(h.evs, c18Event{kind: 'X'}, c18Event{kind: 'U', peer: 3}, c18Event{kind: 'U', peer: 0})
		} else {
			h.evs = append(h.evs, c18Event{kind: 'U', peer: 0})
		}
		emit(h)
		if alg == "spray" {
			break
		}
	}
}

// c18Concurrent: two of the peers chosen by spray-and-wait fail in the same forward() run; the order
// of the read and write-back steps of the two ReportFailure calls is forced through the schedule
// point. pre foreign peers were served successfully before, so the sent list is not empty.
func c18Concurrent(l int, emit func(c18Hist)) {
	words := []string{"aabb", "abab", "abba", "baab", "baba", "bbaa"}
	for _, word := range words {
		for pre := 0; pre <= 1; pre++ {
			if l < 3+pre {
				continue
			}
			n := 3 + pre
			for _, viaTick := range []bool{false, true} {
				h := c18Hist{alg: "spray", l: l, n: n}
				if pre == 1 {
					h.evs = append(h.evs, c18Event{kind: 'U', peer: 3})
				}
				if viaTick {
					// the bundle is first sent successfully to the pre-connected peers, then 1 and 2 come up:
					// peer 1 fails alone, the retry tick reaches both 1 and 2 and both fail
					h.evs = append(h.evs, c18Event{kind: 'S'},
						c18Event{kind: 'U', peer: 1, fails: []int{1}},
						c18Event{kind: 'U', peer: 2, fails: []int{1, 2}, sched: word},
						c18Event{kind: 'T'})
				} else {
					h.evs = append(h.evs, c18Event{kind: 'U', peer: 1}, c18Event{kind: 'U', peer: 2},
						c18Event{kind: 'S', fails: []int{1, 2}, sched: word},
						c18Event{kind: 'T', fails: []int{2}},
						c18Event{kind: 'T'})
				}
				emit(h)
			}
		}
	}
}

// c18OverlapHists: two forward() runs for the bundle at the same time (serial phase: schedule hook).
func c18OverlapHists(alg string, l int, emit func(c18Hist)) {
	// both foreign peers failed so far: all copies are still here, nobody is in sent
	emit(c18Hist{alg: alg, l: l, n: 4, evs: []c18Event{{kind: 'S'}, {kind: 'U', peer: 1, fails: []int{1}},
		{kind: 'U', peer: 2, fails: []int{1, 2}}, {kind: 'O'}, {kind: 'T'}, {kind: 'U', peer: 3}, {kind: 'O'}}})
	// one of the two overlapping runs meets failures
	emit(c18Hist{alg: alg, l: l, n: 4, evs: []c18Event{{kind: 'U', peer: 1}, {kind: 'S', fails: []int{1}},
		{kind: 'U', peer: 2, fails: []int{1, 2}}, {kind: 'O', fails: []int{2}}, {kind: 'O'}, {kind: 'U', peer: 0, fails: []int{0}},
		{kind: 'O', fails: []int{0}}, {kind: 'O'}}})
	// a relay
	k := -1
	if alg == "binary" {
		k = l + 2
	}
	emit(c18Hist{alg: alg, l: l, n: 4, evs: []c18Event{{kind: 'R', k: k, prev: 3}, {kind: 'U', peer: 1, fails: []int{1}},
		{kind: 'U', peer: 2, fails: []int{1, 2}}, {kind: 'O'}, {kind: 'O'}}})
}

// c18GatedOverlap: a transmission of the bundle to peer A is in progress (A's Send has been entered and does
// not answer yet); meanwhile peer B appears and the run started for it hands B its share, successfully; then the
// transmission to A fails. Reported: the copies held before, the copies announced to A and to B (BinarySprayBlock
// of the transmitted bytes; plain spray: 1 each), the bookkeeping afterwards.
func c18GatedOverlap(dir, alg string, l int) (line string) {
	head := fmt.Sprintf("gov %s %d", alg, l)
	defer func() {
		if r := recover(); r != nil {
			line = head + " panic"
		}
	}()
	w, err := c18NewWorld(dir, alg, l)
	if err != nil {
		return "# gov cannot open core"
	}
	defer w.c.Close()
	net := &verifNet{}
	a := net.newCLA("c18-1", c18PeerEid(1), false)
	bb := net.newCLA("c18-2", c18PeerEid(2), true)
	entered := make(chan struct{})
	release := make(chan struct{})
	var once sync.Once
	a.gate = func(m *verifMockCLA, n int) {
		first := false
		once.Do(func() { first = true; close(entered) })
		if first {
			select {
			case <-release:
			case <-time.After(20 * time.Second):
			}
		}
	}
	b, err := w.bundle(c18Node, -1, -1)
	if err != nil {
		return head + " error build"
	}
	w.c.SendBundle(&b) // nobody connected: all copies stay here
	before, _ := w.meta()
	verifPeerUpNoRetry(w.c, a)
	doneA := make(chan struct{})
	go func() {
		defer close(doneA)
		defer func() { _ = recover() }()
		w.c.checkPendingBundles() // run 1: chooses A, blocks inside A.Send
	}()
	select {
	case <-entered:
	case <-time.After(10 * time.Second):
		close(release)
		<-doneA
		return head + " not-blocked"
	}
	doneB := make(chan struct{})
	go func() {
		defer close(doneB)
		defer func() { _ = recover() }()
		verifPeerUp(w.c, bb) // run 2: B appears, the handler's run serves it
	}()
	select {
	case <-doneB:
	case <-time.After(15 * time.Second):
		close(release)
		<-doneA
		return head + " second-run-hangs"
	}
	close(release) // now the transmission to A fails
	<-doneA
	announced := map[string]string{}
	oks := map[string]bool{}
	for _, sn := range net.drain(true) {
		blk := "-"
		if pb, err := bpv7.ParseBundle(strings.NewReader(string(sn.Bytes))); err == nil {
			if cb, err := pb.ExtensionBlock(bpv7.ExtBlockTypeBinarySprayBlock); err == nil {
				blk = strconv.FormatUint(cb.Value.(*bpv7.BinarySprayBlock).RemainingCopies(), 10)
			}
		}
		announced[sn.Peer] = blk
		oks[sn.Peer] = sn.Ok
	}
	after, sent := w.meta()
	return fmt.Sprintf("%s before=%s toA=%s okA=%v toB=%s okB=%v after=%s sent=%s", head, before,
		announced["c18-1"], oks["c18-1"], announced["c18-2"], oks["c18-2"], after, sent)
}

// ---- replay ------------------------------------------------------------------------------------

func c18ParseInts(s string) []int {
	if s == "-" || s == "" {
		return nil
	}
	var xs []int
	for _, p := range strings.Split(s, ".") {
		if v, err := strconv.Atoi(p); err == nil {
			xs = append(xs, v)
		}
	}
	return xs
}

func c18ParseLine(line string) (c18Hist, error) {
	f := strings.Fields(line)
	if len(f) < 4 || f[0] != "h" {
		return c18Hist{}, fmt.Errorf("not a history line")
	}
	h := c18Hist{alg: f[1]}
	h.l, _ = strconv.Atoi(f[2])
	h.n, _ = strconv.Atoi(f[3])
	for _, tok := range f[4:] {
		p := strings.Split(tok, "/")
		if len(p) < 3 {
			return h, fmt.Errorf("bad event %q", tok)
		}
		e := c18Event{k: -1, prev: -1, fails: c18ParseInts(p[1])}
		if p[2] != "-" {
			e.sched = p[2]
		}
		ev := strings.Split(p[0], ":")
		e.kind = ev[0][0]
		switch e.kind {
		case 'R', 'L':
			if len(ev) == 3 {
				if ev[1] != "-" {
					e.k, _ = strconv.Atoi(ev[1])
				}
				if ev[2] != "-" {
					e.prev, _ = strconv.Atoi(ev[2])
				}
			}
		case 'U', 'D':
			if len(ev) == 2 {
				e.peer, _ = strconv.Atoi(ev[1])
			}
		}
		h.evs = append(h.evs, e)
	}
	return h, nil
}

// ---- entry point -------------------------------------------------------------------------------

func TestVerifC18(t *testing.T) {
	outPath := os.Getenv("VERIF_OUT")
	if outPath == "" {
		t.Skip("VERIF_OUT not set")
	}
	scratch := os.Getenv("VERIF_SCRATCH")
	if scratch == "" {
		scratch = os.TempDir()
	}
	base, err := os.MkdirTemp(scratch, "c18-")
	if err != nil {
		t.Fatal(err)
	}
	defer os.RemoveAll(base)
	f, err := os.Create(outPath)
	if err != nil {
		t.Fatal(err)
	}
	defer f.Close()
	bw := bufio.NewWriter(f)
	defer bw.Flush()
	var outMu sync.Mutex
	write := func(lines []string) {
		outMu.Lock()
		for _, l := range lines {
			bw.WriteString(l)
			bw.WriteByte('\n')
		}
		bw.Flush()
		outMu.Unlock()
	}

	// the BinarySprayBlock must be parseable from the transmitted bytes also in spray-only runs
	if ebm := bpv7.GetExtensionBlockManager(); !ebm.IsKnown(bpv7.ExtBlockTypeBinarySprayBlock) {
		_ = ebm.Register(bpv7.NewBinarySprayBlock(0))
	}

	if rp := os.Getenv("VERIF_REPLAY"); rp != "" {
		data, err := os.ReadFile(rp)
		if err != nil {
			t.Fatal(err)
		}
		var rec struct {
			MinimalInput string   `json:"minimal_input"`
			More         []string `json:"more"`
		}
		if err := json.Unmarshal(data, &rec); err != nil {
			t.Fatal(err)
		}
		for i, line := range append([]string{rec.MinimalInput}, rec.More...) {
			h, err := c18ParseLine(line)
			if err != nil {
				continue
			}
			w, err := c18NewWorld(filepath.Join(base, fmt.Sprintf("replay%d", i)), h.alg, h.l)
			if err != nil {
				t.Fatal(err)
			}
			write([]string{c18Run(w, h)})
			w.c.Close()
		}
		return
	}

	seed := verifSeed()
	thorough := verifThorough()
	// debugging aid: VERIF_C18_PHASES=parallel,forced,overlap restricts the run (default: all)
	phase := func(name string) bool {
		p := os.Getenv("VERIF_C18_PHASES")
		return p == "" || strings.Contains(","+p+",", ","+name+",")
	}

	// jobs: a world (real Core, configured multiplicity L) per chunk of histories of one (algorithm, L)
	type job struct {
		alg   string
		l     int
		hists []c18Hist
	}
	var jobs []*job
	counts := map[string]int{}
	for _, alg := range []string{"spray", "binary"} {
		for l := 1; l <= 8; l++ {
			var hists []c18Hist
			add := func(h c18Hist) { hists = append(hists, h) }
			// bounded-exhaustive part: all histories entry·e1·…·e_d over destination + 2 foreign peers
			submit := []c18Event{{kind: 'S'}}
			var recv []c18Event
			if alg == "binary" {
				if l == 3 || thorough {
					recv = append(recv, c18Event{kind: 'R', k: -1, prev: -1}) // no block: treated as originated
				}
				if l == 2 || thorough { // the copies of a received bundle do not depend on L
					ks := []int{1, 2, 3}
					if thorough {
						ks = []int{0, 1, 2, 3, 4, 5, 8}
					}
					for _, k := range ks {
						recv = append(recv, c18Event{kind: 'R', k: k, prev: -1})
					}
					recv = append(recv, c18Event{kind: 'R', k: 5, prev: 1})
				}
			} else if l == 2 || thorough {
				recv = []c18Event{{kind: 'R', k: -1, prev: -1}, {kind: 'R', k: -1, prev: 1}}
			}
			switch {
			case thorough && l <= 3:
				c18Exhaustive(alg, l, 3, 3, submit, true, add)
				c18Exhaustive(alg, l, 3, 2, recv, true, add)
			case thorough:
				c18Exhaustive(alg, l, 3, 2, append(submit, recv...), l == 4, add)
			case l <= 3 || (alg == "binary" && l == 4):
				// (a restart costs as much as fifty other events: only where the budget is tight)
				c18Exhaustive(alg, l, 3, 2, submit, l == 2, add)
				c18Exhaustive(alg, l, 3, 2, recv, false, add)
			default:
				c18Exhaustive(alg, l, 2, 2, submit, false, add)
			}
			counts["exhaustive"] += len(hists)
			// random part: 0..6 peers, longer histories
			r := &verifRng{s: seed*1000003 + uint64(l)*7919 + uint64(len(alg))}
			nr := 20
			if thorough {
				nr = 1200
			}
			for i := 0; i < nr; i++ {
				add(c18Random(r, alg, l))
			}
			counts["random"] += nr
			before := len(hists)
			c18Directed(alg, l, add)
			counts["directed"] += len(hists) - before
			for len(hists) > 0 {
				n := 60
				if n > len(hists) {
					n = len(hists)
				}
				jobs = append(jobs, &job{alg: alg, l: l, hists: hists[:n]})
				hists = hists[n:]
			}
		}
	}

	tStart := time.Now()
	var wg sync.WaitGroup
	var notesMu sync.Mutex
	var notes []string
	sem := make(chan struct{}, 16)
	if !phase("parallel") {
		jobs = nil
	}
	for ji, j := range jobs {
		wg.Add(1)
		go func(ji int, j *job) {
			defer wg.Done()
			sem <- struct{}{}
			defer func() { <-sem }()
			w, err := c18NewWorld(filepath.Join(base, fmt.Sprintf("w%d", ji)), j.alg, j.l)
			if err != nil {
				notesMu.Lock()
				notes = append(notes, "core-error "+err.Error())
				notesMu.Unlock()
				return
			}
			var lines []string
			for _, h := range j.hists {
				lines = append(lines, c18Run(w, h))
				if len(lines) >= 200 {
					write(lines)
					lines = lines[:0]
				}
			}
			write(lines)
			w.c.Close()
			notesMu.Lock()
			notes = append(notes, w.notes...)
			notesMu.Unlock()
		}(ji, j)
	}
	wg.Wait()
	tParallel := time.Since(tStart)

	// forced interleavings: the schedule hook is a package-level variable, so these run alone
	for l := 3; l <= 8; l++ {
		if (!thorough && l > 5) || !phase("forced") {
			break
		}
		w, err := c18NewWorld(filepath.Join(base, fmt.Sprintf("conc%d", l)), "spray", l)
		if err != nil {
			t.Fatal(err)
		}
		var lines []string
		c18Concurrent(l, func(h c18Hist) {
			lines = append(lines, c18Run(w, h))
			counts["concurrent"]++
		})
		write(lines)
		w.c.Close()
		notes = append(notes, w.notes...)
	}

	// a failure report that arrives after another run handed a share to another peer
	if phase("overlap") {
		var lines []string
		for _, alg := range []string{"spray", "binary"} {
			ls := []int{3, 4, 8}
			if thorough {
				ls = []int{2, 3, 4, 5, 7, 8, 16}
			}
			for _, l := range ls {
				lines = append(lines, c18GatedOverlap(filepath.Join(base, fmt.Sprintf("gov-%s-%d", alg, l)), alg, l))
			}
		}
		write(lines)
	}
	for _, alg := range []string{"spray", "binary"} {
		for _, l := range []int{2, 3, 4, 7} {
			if (!thorough && l == 7) || !phase("overlap") {
				continue
			}
			w, err := c18NewWorld(filepath.Join(base, fmt.Sprintf("ovl-%s-%d", alg, l)), alg, l)
			if err != nil {
				t.Fatal(err)
			}
			var lines []string
			c18OverlapHists(alg, l, func(h c18Hist) {
				lines = append(lines, c18Run(w, h))
				counts["overlap"]++
			})
			write(lines)
			w.c.Close()
			notes = append(notes, w.notes...)
		}
	}

	var cs []string
	for k, v := range counts {
		cs = append(cs, fmt.Sprintf("%s=%d", k, v))
	}
	sort.Strings(cs)
	write([]string{"# c18 histories: " + strings.Join(cs, " ") + fmt.Sprintf(" seed=%d", seed)})
	write([]string{fmt.Sprintf("# c18 timing: %d worlds in parallel %.1fs, forced interleavings %.1fs", len(jobs),
		tParallel.Seconds(), (time.Since(tStart) - tParallel).Seconds())})
	sort.Strings(notes)
	for i, n := range notes {
		if i < 10 {
			write([]string{"# note " + n})
		}
	}
}
