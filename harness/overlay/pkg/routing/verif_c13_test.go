package routing

// Correspondence harness for C13 (never back to the previous node, never twice to one peer). Same
// machinery as C05 (verif_node_test.go); the histories concentrate on receptions with all kinds of
// previous nodes, 1..5 peers, transmission failures, retries and restarts, for every replicating
// algorithm and the sensor-mule wrapper. Judgement: /verif/lean/Driver/C13.lean.

import (
	"fmt"
	"os"
	"path/filepath"
	"strings"
	"testing"
	"time"
)

func c13Peers(n int) []nPeer {
	var ps []nPeer
	for i := 1; i <= n; i++ {
		ps = append(ps, nPeer{i, nEid{i + 1, 0}})
	}
	return ps
}

// c13Base: n peers (CLA i talks to node i+1), four bundles:
//   1  relayed, previous node = peer 1
//   2  the same bundle ID, previous node = `alt` (another peer, or peer 1's node with a different service)
//   3  originated here (submitted)
//   4  relayed, no previous-node block
func c13Base(algo string, mule bool, n int, variant int) *nHist {
	far := nEid{5 + n, 0}
	if algo == "dtlsr" {
		far = nEid{nBcastNode, 0}
	}
	h := &nHist{op: "N." + algo, cfg: nCfg{self: 1, algo: algo, mule: mule, l: 3 + variant%2, now: nAbsNow}, peers: c13Peers(n)}
	if mule {
		h.op = "N.mule-" + algo
		h.cfg.sensors = []int{2}
		if n >= 3 && variant%2 == 1 {
			h.cfg.sensors = []int{2, 4}
		}
	}
	src := nEid{40, 0}
	b1 := nFresh(1, src, far)
	b1.prev = nP(nEid{2, 0})
	b2 := b1
	b2.tag = 2
	switch variant % 3 {
	case 0:
		b2.prev = nP(nEid{2, 1}) // same node as peer 1, other service: not the same endpoint ID
	case 1:
		if n >= 2 {
			b2.prev = nP(nEid{3, 0})
		} else {
			b2.prev = nP(nEid{30, 0})
		}
	case 2:
		b2.prev = nil
	}
	b3 := nFresh(3, nEid{1, 0}, far)
	b4 := nFresh(4, nEid{41, 0}, far)
	if algo == "binary_spray" {
		b1.bs, b2.bs = nInt(4+variant%3), nInt(4+variant%3)
		if variant%2 == 1 {
			b4.prev = nP(nEid{2, 0}) // relayed without a binary spray block
		}
	}
	if variant%4 == 3 {
		b4.dst = nEid{2, 7} // for peer 1's node: direct delivery
		b4.prev = nP(nEid{3, 0})
	}
	h.bundles = []nBundle{b1, b2, b3, b4}
	if algo == "prophet" {
		// every peer but the last is a better forwarder for the far destination
		for i, p := range h.peers {
			if i < len(h.peers)-1 || len(h.peers) == 1 {
				h.cand = append(h.cand, [2]nEid{p.eid, far})
			}
		}
	}
	if algo == "dtlsr" {
		// a unicast bundle with a routing table entry (next hop peer 1): not a replicating choice
		b4u := &h.bundles[3]
		b4u.dst = nEid{60, 0}
		h.cand = append(h.cand, [2]nEid{nEid{2, 0}, nEid{60, 0}})
		// relayed link-state broadcasts: the broadcast bundles carry a DTLSRBlock with data of their origin, and a
		// fifth bundle of the same origin (another creation time) carries data that is OLDER than (variant 0, 1)
		// or as old as (variant 2) or newer than (variant 3) that of bundles 1/2 — whatever the data says, the
		// previous node of a broadcast bundle has to be remembered
		ls1 := nAbsNow - 5000
		h.bundles[0].lsTime, h.bundles[1].lsTime = nI64(ls1), nI64(ls1)
		b5 := nFresh(5, src, far)
		b5.ts = h.bundles[0].ts + 1
		b5.prev = nP(nEid{2, 0})
		if n >= 2 && variant%2 == 1 {
			b5.prev = nP(nEid{3, 0})
		}
		b5.lsTime = nI64(ls1 + []int64{-1000, -1, 0, 1000}[variant%4])
		h.bundles = append(h.bundles, b5)
	}
	return h
}

func TestVerifC13(t *testing.T) {
	outPath := os.Getenv("VERIF_OUT")
	if outPath == "" {
		t.Skip("VERIF_OUT not set")
	}
	scratch := filepath.Join(os.Getenv("VERIF_SCRATCH"), "c13")
	if os.Getenv("VERIF_SCRATCH") == "" {
		scratch = filepath.Join(os.TempDir(), fmt.Sprintf("verif-c13-%d", os.Getpid()))
	}
	_ = os.MkdirAll(scratch, 0o700)
	defer os.RemoveAll(scratch)
	out, err := os.Create(outPath)
	if err != nil {
		t.Fatal(err)
	}
	defer out.Close()
	seed := verifSeed()
	rng := &verifRng{s: seed*104729 + 13}
	thorough := verifThorough()
	only := os.Getenv("VERIF_C13_ONLY")

	algos := []struct {
		name string
		mule bool
	}{{"epidemic", false}, {"spray", false}, {"binary_spray", false}, {"prophet", false}, {"dtlsr", false},
		{"epidemic", true}, {"spray", true}, {"prophet", true}}
	var perJob [][]*nHist
	// directed histories first (the replay phase has a time budget)
	var sentinels []*nHist
	for ai, a := range algos {
		if only != "" && only != a.name {
			continue
		}
		for vi, evs := range []string{"U1 U2 U3 R1 T T X U1 U2 U3 T R2 T", "R1 U1 U2 T D2 U2 T S3 U3 T T", "U1 R4 U2 T X U2 U1 T R4 T"} {
			h := c13Base(a.name, a.mule, 3, ai+vi)
			h.oracle = map[[2]int]string{}
			for _, p := range h.peers {
				for _, b := range h.bundles {
					pat := "01"
					if (vi+p.addr+b.tag)%3 == 1 {
						pat = "110"
					}
					h.oracle[[2]int{p.addr, b.tag}] = pat
				}
			}
			for _, f := range strings.Fields(evs) {
				e := nEvent{kind: f[0]}
				if len(f) > 1 {
					fmt.Sscanf(f[1:], "%d", &e.tag)
					e.addr = e.tag
				}
				h.events = append(h.events, e)
			}
			sentinels = append(sentinels, h)
		}
	}
	for _, a := range algos {
		if only != "" && only != a.name {
			continue
		}
		// exhaustive: 2 peers, the two same-ID receptions + one more bundle
		{
			var hs []*nHist
			base := c13Base(a.name, a.mule, 2, int(seed)%6)
			base.oracle = nRandomOracle(base, rng, 50)
			small := *base
			small.bundles = []nBundle{base.bundles[0], base.bundles[1], base.bundles[2+int(seed)%2]}
			alpha := nAlphabet(&small, a.mule)
			depth := 2
			if thorough {
				depth = 3
			}
			hs = append(hs, nExhaustive(&small, alpha, depth)...)
			perJob = append(perJob, hs)
		}
		// random: 1..5 peers, all four bundles
		{
			var hs []*nHist
			cnt := 10
			if thorough {
				cnt = 120
			}
			for i := 0; i < cnt; i++ {
				n := 1 + (i+int(seed))%5
				base := c13Base(a.name, a.mule, n, rng.intn(12))
				if i%5 == 4 {
					// a second convergence sender to the first peer (another address, the same endpoint ID): the
					// algorithm must serve the peer once
					base.peers = append(base.peers, nPeer{n + 1, base.peers[0].eid})
				}
				base.oracle = nRandomOracle(base, rng, 15+rng.intn(60))
				alpha := nAlphabet(base, a.mule)
				// receptions, peer changes and retries dominate; weight by repetition
				var w []nEvent
				for _, e := range alpha {
					k := 2
					if e.kind == 'C' || e.kind == 'X' {
						k = 1
					}
					if e.kind == 'T' || e.kind == 'U' {
						k = 3
					}
					for j := 0; j < k; j++ {
						w = append(w, e)
					}
				}
				l := 10 + rng.intn(12)
				if i%4 == 3 {
					l = 40
				}
				hs = append(hs, nRandom(base, w, l, rng))
			}
			perJob = append(perJob, hs)
		}
	}
	hs := append(sentinels, nInterleave(perJob)...)
	t0 := time.Now()
	n := nRunAll(hs, scratch, out, nBudget(80*time.Second, 12*time.Minute))
	fmt.Fprintf(out, "# c13 histories=%d of %d wall=%.1fs seed=%d\n", n, len(hs), time.Since(t0).Seconds(), seed)
}
