package routing

// Shared helpers for the in-package correspondence harnesses of pkg/routing (attached with
// `go test -overlay`, never part of /repo). List this file together with the property's own
// verif_cxx_test.go in checks/Cxx.json.

import (
	"bytes"
	"encoding/hex"
	"fmt"
	"os"
	"sort"
	"strconv"
	"strings"
	"sync"
	"time"

	log "github.com/sirupsen/logrus"

	"github.com/dtn7/dtn7-go/pkg/bpv7"
	"github.com/dtn7/dtn7-go/pkg/cla"
)

type verifRng struct{ s uint64 }

func (r *verifRng) next() uint64 {
	r.s += 0x9e3779b97f4a7c15
	z := r.s
	z = (z ^ (z >> 30)) * 0xbf58476d1ce4e5b9
	z = (z ^ (z >> 27)) * 0x94d049bb133111eb
	return z ^ (z >> 31)
}
func (r *verifRng) intn(n int) int { return int(r.next() % uint64(n)) }

func verifSeed() uint64 {
	s, _ := strconv.ParseUint(os.Getenv("VERIF_SEED"), 10, 64)
	return s
}
func verifThorough() bool { return os.Getenv("VERIF_TIER") == "thorough" }

func verifHex(b []byte) string {
	if len(b) == 0 {
		return "-"
	}
	return hex.EncodeToString(b)
}

func verifBundleBytes(b bpv7.Bundle) []byte {
	var buf bytes.Buffer
	if err := b.MarshalCbor(&buf); err != nil {
		return nil
	}
	return buf.Bytes()
}

// verifSent is one bundle handed to a mock convergence layer.
type verifSent struct {
	Seq   int       // global order over all mocks of one verifNet
	Peer  string    // mock name
	Bytes []byte    // serialised inside Send, like a real CLA does
	Ok    bool      // answer given to the core
	At    time.Time // wall clock when Send was entered
}

// verifNet is a set of scripted mock CLAs sharing one send log.
type verifNet struct {
	mu  sync.Mutex
	log []verifSent
	seq int
}

// verifMockCLA is a scripted ConvergenceSender. It deliberately is NOT a ConvergenceReceiver (no
// GetEndpointID method): Core.HasEndpoint treats every receiver's endpoint as a local one.
type verifMockCLA struct {
	net       *verifNet
	name      string
	peer      bpv7.EndpointID
	permanent bool
	ch        chan cla.ConvergenceStatus

	mu      sync.Mutex
	script  []bool                       // answers for successive Send calls; exhausted => deflt
	deflt   bool                         // default answer
	startOk bool                         // answer of Start
	gate    func(m *verifMockCLA, n int) // optional rendezvous inside Send (before answering)
	nSend   int
	closed  int
	started int
}

func (n *verifNet) newCLA(name string, peer bpv7.EndpointID, deflt bool) *verifMockCLA {
	return &verifMockCLA{net: n, name: name, peer: peer, deflt: deflt, startOk: true,
		ch: make(chan cla.ConvergenceStatus, 16)}
}

func (m *verifMockCLA) Close() error { m.mu.Lock(); m.closed++; m.mu.Unlock(); return nil }
func (m *verifMockCLA) Start() (error, bool) {
	m.mu.Lock()
	defer m.mu.Unlock()
	m.started++
	if m.startOk {
		return nil, true
	}
	return fmt.Errorf("verif: scripted start failure"), true
}
func (m *verifMockCLA) Channel() chan cla.ConvergenceStatus { return m.ch }
func (m *verifMockCLA) Address() string                     { return "verif://" + m.name }
func (m *verifMockCLA) IsPermanent() bool                   { return m.permanent }
func (m *verifMockCLA) GetPeerEndpointID() bpv7.EndpointID  { return m.peer }
func (m *verifMockCLA) String() string                      { return "verif://" + m.name }

func (m *verifMockCLA) setScript(answers ...bool) { m.mu.Lock(); m.script = answers; m.mu.Unlock() }
func (m *verifMockCLA) setDefault(ok bool)        { m.mu.Lock(); m.deflt = ok; m.mu.Unlock() }

func (m *verifMockCLA) Send(b bpv7.Bundle) error {
	at := time.Now()
	data := verifBundleBytes(b)
	m.mu.Lock()
	n := m.nSend
	m.nSend++
	ok := m.deflt
	if len(m.script) > 0 {
		ok = m.script[0]
		m.script = m.script[1:]
	}
	gate := m.gate
	m.mu.Unlock()
	if gate != nil {
		gate(m, n)
	}
	m.net.mu.Lock()
	m.net.log = append(m.net.log, verifSent{Seq: m.net.seq, Peer: m.name, Bytes: data, Ok: ok, At: at})
	m.net.seq++
	m.net.mu.Unlock()
	if ok {
		return nil
	}
	return fmt.Errorf("verif: scripted send failure")
}

// drain returns and clears the send log (sorted by peer name then sequence when canon is true:
// sends of one forward() run in one goroutine per peer, their relative order is not defined).
func (n *verifNet) drain(canon bool) []verifSent {
	n.mu.Lock()
	l := n.log
	n.log = nil
	n.mu.Unlock()
	if canon {
		sort.SliceStable(l, func(i, j int) bool { return l[i].Peer < l[j].Peer })
	}
	return l
}

// verifNewCore creates a real Core on dir. The periodic cron jobs of the Core (pending_bundles every
// 10 s, clean_store every 10 min) are unregistered so that they never fire inside a scripted
// scenario; harnesses call the cron bodies directly (c.checkPendingBundles, c.store.DeleteExpired).
func verifNewCore(dir string, nodeId string, conf RoutingConf) (*Core, error) {
	log.SetLevel(log.PanicLevel)
	c, err := NewCore(dir, bpv7.MustNewEndpointID(nodeId), false, conf, nil)
	if err == nil {
		c.cron.Unregister("pending_bundles")
		c.cron.Unregister("clean_store")
	}
	return c, err
}

// verifPeerUp registers the mock with the real CLA manager and performs what Core.handler does on a
// PeerAppeared message, synchronously.
func verifPeerUp(c *Core, m *verifMockCLA) {
	c.claManager.Register(m)
	c.routing.ReportPeerAppeared(m)
	c.checkPendingBundles()
}

// verifPeerUpNoRetry registers a convergence sender without running the pending-bundles job for it.
func verifPeerUpNoRetry(c *Core, m *verifMockCLA) {
	c.claManager.Register(m)
	c.routing.ReportPeerAppeared(m)
}

// verifPeerDown: what the manager + Core.handler do on PeerDisappeared, minus the restart.
func verifPeerDown(c *Core, m *verifMockCLA) {
	c.claManager.Unregister(m)
	c.routing.ReportPeerDisappeared(m)
}

// verifReceive performs what Core.handler does for a ReceivedBundle message, synchronously.
func verifReceive(c *Core, b bpv7.Bundle, receiver bpv7.EndpointID) {
	bp := NewBundleDescriptorFromBundle(b, c.store)
	bp.Receiver = receiver
	_ = bp.Sync()
	c.receive(bp)
}

// verifStoreDump lists the store's items in canonical form:
// id|pending|constraints(sorted)|props(selected routing lists, sorted)
func verifStoreDump(c *Core, ids []bpv7.BundleID) []string {
	var out []string
	for _, id := range ids {
		bi, err := c.store.QueryId(id.Scrub())
		if err != nil {
			out = append(out, id.String()+"|absent")
			continue
		}
		var cons []string
		if v, ok := bi.Properties["bundlepack/constraints"]; ok {
			for k := range v.(map[Constraint]bool) {
				cons = append(cons, k.String())
			}
		}
		sort.Strings(cons)
		var props []string
		for k, v := range bi.Properties {
			if !strings.HasPrefix(k, "routing/") {
				continue
			}
			if eids, ok := v.([]bpv7.EndpointID); ok {
				var ss []string
				for _, e := range eids {
					ss = append(ss, e.String())
				}
				sort.Strings(ss)
				props = append(props, k+"="+strings.Join(ss, ","))
			}
		}
		sort.Strings(props)
		out = append(out, fmt.Sprintf("%s|pending=%v|%s|%s", id.String(), bi.Pending, strings.Join(cons, ","), strings.Join(props, ";")))
	}
	return out
}

// verifPendingIDs returns the ids returned by QueryPending, sorted.
func verifPendingIDs(c *Core) []string {
	bis, err := c.store.QueryPending()
	if err != nil {
		return []string{"error:" + err.Error()}
	}
	var out []string
	for _, bi := range bis {
		out = append(out, bi.BId.String())
	}
	sort.Strings(out)
	return out
}
