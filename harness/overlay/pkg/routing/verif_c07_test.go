package routing

// Correspondence harness for C07, part 2 (attached with `go test -overlay`; never part of /repo):
// bundles travel through a REAL routing.Core (receive -> dispatching -> localDelivery ->
// AgentManager.Deliver -> MuxAgent) with registered application agents (mock agents, a real
// PingAgent, a real RestAgent behind httptest) and scripted mock CLAs, which must stay silent for
// locally delivered bundles. Line format: see /verif/lean/Driver/C07.lean ("core" lines).
// Uses verif_common_test.go (mock CLAs, synchronous Core driving).

import (
	"bytes"
	"encoding/json"
	"fmt"
	"net/http/httptest"
	"os"
	"sort"
	"strconv"
	"strings"
	"sync"
	"testing"
	"time"

	"github.com/gorilla/mux"

	"github.com/dtn7/dtn7-go/pkg/agent"
	"github.com/dtn7/dtn7-go/pkg/bpv7"
)

type c07Barrier struct{}

func (c07Barrier) Recipients() []bpv7.EndpointID { return nil }

type c07Mock struct {
	mu       sync.Mutex
	eps      []bpv7.EndpointID
	receiver chan agent.Message
	sender   chan agent.Message
	inbox    []bpv7.Bundle
}

func newC07Mock(eps []bpv7.EndpointID) *c07Mock {
	m := &c07Mock{eps: eps, receiver: make(chan agent.Message), sender: make(chan agent.Message)}
	go func() {
		for msg := range m.receiver {
			if bm, ok := msg.(agent.BundleMessage); ok {
				m.mu.Lock()
				m.inbox = append(m.inbox, bm.Bundle)
				m.mu.Unlock()
			}
			if _, ok := msg.(agent.ShutdownMessage); ok {
				return
			}
		}
	}()
	return m
}
func (m *c07Mock) Endpoints() []bpv7.EndpointID        { return m.eps }
func (m *c07Mock) MessageReceiver() chan agent.Message { return m.receiver }
func (m *c07Mock) MessageSender() chan agent.Message   { return m.sender }
func (m *c07Mock) drain() []bpv7.Bundle {
	m.mu.Lock()
	defer m.mu.Unlock()
	l := m.inbox
	m.inbox = nil
	return l
}

// c07Ping relays to a REAL agent.PingAgent and keeps its answers (see the pkg/agent harness).
type c07Ping struct {
	p        *agent.PingAgent
	receiver chan agent.Message
	sender   chan agent.Message
	mu       sync.Mutex
	pongs    []bpv7.Bundle
}

func newC07Ping(ep bpv7.EndpointID) *c07Ping {
	v := &c07Ping{p: agent.NewPing(ep), receiver: make(chan agent.Message), sender: make(chan agent.Message)}
	go func() {
		for msg := range v.receiver {
			v.p.MessageReceiver() <- msg
			if _, ok := msg.(agent.ShutdownMessage); ok {
				return
			}
			select {
			case out, ok := <-v.p.MessageSender():
				if bm, isB := out.(agent.BundleMessage); ok && isB {
					v.mu.Lock()
					v.pongs = append(v.pongs, bm.Bundle)
					v.mu.Unlock()
				}
			case v.p.MessageReceiver() <- c07Barrier{}:
			}
		}
	}()
	return v
}
func (v *c07Ping) Endpoints() []bpv7.EndpointID        { return v.p.Endpoints() }
func (v *c07Ping) MessageReceiver() chan agent.Message { return v.receiver }
func (v *c07Ping) MessageSender() chan agent.Message   { return v.sender }
func (v *c07Ping) drain() []bpv7.Bundle {
	v.mu.Lock()
	defer v.mu.Unlock()
	l := v.pongs
	v.pongs = nil
	return l
}

type c07Agent struct {
	kind  byte
	id    int
	mock  *c07Mock
	ping  *c07Ping
	rest  *agent.RestAgent
	srv   *httptest.Server
	uuids map[int]string
	live  map[int]bool
}

type c07Env struct {
	t      *testing.T
	c      *Core
	net    *verifNet
	node   string
	agents map[int]*c07Agent
	order  []int

	bundles map[int]bpv7.Bundle
	byCbor  map[string]int
	byJson  map[string]int
	byId    map[string]int
	failed  string
}

func c07Eid(p string) bpv7.EndpointID { return bpv7.MustNewEndpointID("dtn://" + p) }

func c07Toks(ts []int) string {
	if len(ts) == 0 {
		return "-"
	}
	ss := make([]string, len(ts))
	for i, t := range ts {
		ss[i] = strconv.Itoa(t)
	}
	return strings.Join(ss, ",")
}

func c07Json(b bpv7.Bundle) string {
	j, _ := json.Marshal(b)
	var c bytes.Buffer
	if json.Compact(&c, j) != nil {
		return string(j)
	}
	return c.String()
}

func (e *c07Env) fail(format string, a ...interface{}) {
	if e.failed == "" {
		e.failed = fmt.Sprintf(format, a...)
	}
}

func (e *c07Env) bundle(tok int, dest, rt, flags string) bpv7.Bundle {
	if b, ok := e.bundles[tok]; ok {
		return b
	}
	bl := bpv7.Builder().
		Source("dtn://src/app").
		Destination("dtn://" + dest).
		ReportTo(fmt.Sprintf("dtn://%s%d", rt, tok)).
		CreationTimestampTime(time.Date(2021, 3, 4, 5, 6, 7+tok, 0, time.UTC)).
		Lifetime("876000h")
	if tok%2 == 0 {
		bl = bl.CRC(bpv7.CRC32).HopCountBlock(32)
	}
	var fl bpv7.BundleControlFlags
	if strings.Contains(flags, "d") {
		fl |= bpv7.StatusRequestDelivery
	}
	switch {
	case strings.Contains(flags, "a"):
		ref, _ := bpv7.Builder().Source("dtn://n9/x").Destination("dtn://n8/y").CreationTimestampEpoch().
			Lifetime("1h").BundleAgeBlock(0).PayloadBlock([]byte("ref")).Build()
		bl = bl.StatusReport(ref, bpv7.ForwardedBundle, bpv7.NoInformation, bpv7.DtnTimeEpoch)
	case strings.Contains(flags, "g"):
		fl |= bpv7.AdministrativeRecordPayload
		bl = bl.BundleCtrlFlags(fl).PayloadBlock([]byte(fmt.Sprintf("garbage%d", tok)))
	default:
		bl = bl.BundleCtrlFlags(fl).PayloadBlock([]byte(fmt.Sprintf("t%d", tok)))
	}
	b, err := bl.Build()
	if err != nil {
		panic(err)
	}
	e.bundles[tok] = b
	e.byCbor[string(verifBundleBytes(b))] = tok
	e.byJson[c07Json(b)] = tok
	e.byId[b.ID().String()] = tok
	return b
}

func (e *c07Env) post(a *c07Agent, path string, req interface{}, resp interface{}) {
	var buf bytes.Buffer
	_ = json.NewEncoder(&buf).Encode(req)
	r, err := a.srv.Client().Post(a.srv.URL+"/rest/"+path, "application/json", &buf)
	if err != nil {
		e.fail("POST %s: %v", path, err)
		return
	}
	defer r.Body.Close()
	if err := json.NewDecoder(r.Body).Decode(resp); err != nil {
		e.fail("POST %s: decode: %v", path, err)
	}
}

func (e *c07Env) fetch(a *c07Agent, c int) []int {
	var fr struct {
		Error   string            `json:"error"`
		Bundles []json.RawMessage `json:"bundles"`
	}
	e.post(a, "fetch", agent.RestFetchRequest{UUID: a.uuids[c]}, &fr)
	var toks []int
	for _, raw := range fr.Bundles {
		var c bytes.Buffer
		_ = json.Compact(&c, raw)
		toks = append(toks, e.byJson[c.String()])
	}
	return toks
}

func (e *c07Env) barrier() {
	for i := 0; i < 4; i++ {
		e.c.agentManager.mux.MessageReceiver() <- c07Barrier{}
	}
}

type c07Entry struct {
	name string
	key  [3]int
	toks []int
}

func c07Entries(es []c07Entry) string {
	sort.SliceStable(es, func(i, j int) bool {
		for k := 0; k < 3; k++ {
			if es[i].key[k] != es[j].key[k] {
				return es[i].key[k] < es[j].key[k]
			}
		}
		return false
	})
	var parts []string
	for _, x := range es {
		parts = append(parts, x.name+":"+c07Toks(x.toks))
	}
	if len(parts) == 0 {
		return "-"
	}
	return strings.Join(parts, ";")
}

// received: push recipients' inboxes plus one fetch per live REST client (mailboxes are drained
// after every operation, the pkg/agent harness covers fetch sequences).
func (e *c07Env) received() string {
	e.barrier()
	var es []c07Entry
	for _, id := range e.order {
		a := e.agents[id]
		switch a.kind {
		case 'M':
			var ts []int
			for _, b := range a.mock.drain() {
				ts = append(ts, e.byCbor[string(verifBundleBytes(b))])
			}
			if len(ts) > 0 {
				es = append(es, c07Entry{fmt.Sprintf("M%d", id), [3]int{'M', id, 0}, ts})
			}
		case 'P':
			var ts []int
			for _, pong := range a.ping.drain() {
				// the pong goes from the ping agent's endpoint to the acknowledged bundle's report-to
				// endpoint, which is unique per bundle
				t := 0
				for tok, b := range e.bundles {
					if b.PrimaryBlock.ReportTo == pong.PrimaryBlock.Destination && b.PrimaryBlock.Destination == pong.PrimaryBlock.SourceNode {
						t = tok
					}
				}
				ts = append(ts, t)
			}
			if len(ts) > 0 {
				es = append(es, c07Entry{fmt.Sprintf("P%d", id), [3]int{'P', id, 0}, ts})
			}
		case 'R':
			var cs []int
			for c := range a.live {
				cs = append(cs, c)
			}
			sort.Ints(cs)
			for _, c := range cs {
				if ts := e.fetch(a, c); len(ts) > 0 {
					es = append(es, c07Entry{fmt.Sprintf("R%d.%d", id, c), [3]int{'R', id, c}, ts})
				}
			}
		}
	}
	return c07Entries(es)
}

func (e *c07Env) endpoints() string {
	var ss []string
	for _, ep := range e.c.agentManager.mux.Endpoints() {
		ss = append(ss, strings.TrimPrefix(ep.String(), "dtn://"))
	}
	if len(ss) == 0 {
		return "-"
	}
	sort.Strings(ss)
	return strings.Join(ss, ",")
}

// sent: what the mock CLAs were given, as a sorted set of "<peer>:<what>".
func (e *c07Env) sent() string {
	set := map[string]bool{}
	for _, s := range e.net.drain(true) {
		what := "?"
		b, err := bpv7.ParseBundle(bytes.NewReader(s.Bytes))
		if err != nil {
			what = "unparsable"
		} else if tok, ok := e.byId[b.ID().String()]; ok {
			what = fmt.Sprintf("B%d", tok)
		} else if b.IsAdministrativeRecord() {
			what = "A?"
			if pl, err := b.PayloadBlock(); err == nil {
				if ar, err := bpv7.NewAdministrativeRecordFromCbor(pl.Value.(*bpv7.PayloadBlock).Data()); err == nil {
					if sr, ok := ar.(*bpv7.StatusReport); ok {
						kinds := ""
						for _, sip := range sr.StatusInformations() {
							kinds += string("rfdx"[int(sip)])
						}
						what = fmt.Sprintf("S%s:%d>%s", kinds, e.byId[sr.RefBundle.String()],
							strings.TrimPrefix(b.PrimaryBlock.Destination.String(), "dtn://"))
					}
				}
			}
		}
		set[s.Peer+":"+what] = true
	}
	var ss []string
	for k := range set {
		ss = append(ss, k)
	}
	if len(ss) == 0 {
		return "-"
	}
	sort.Strings(ss)
	return strings.Join(ss, ";")
}

func (e *c07Env) store(tok int) string {
	b := e.bundles[tok]
	bi, err := e.c.store.QueryId(b.ID().Scrub())
	if err != nil {
		return "absent"
	}
	var cs []string
	if v, ok := bi.Properties["bundlepack/constraints"]; ok {
		for k := range v.(map[Constraint]bool) {
			cs = append(cs, map[Constraint]string{DispatchPending: "D", ForwardPending: "F", ReassemblyPending_: "R",
				Contraindicated: "C", LocalEndpoint: "L"}[k])
		}
	}
	sort.Strings(cs)
	if len(cs) == 0 {
		return "kept"
	}
	return strings.Join(cs, "+")
}

// stores: the store state of every bundle seen so far, "<tok>:<store>;…"
func (e *c07Env) stores() string {
	var toks []int
	for tok := range e.bundles {
		toks = append(toks, tok)
	}
	sort.Ints(toks)
	var parts []string
	for _, tok := range toks {
		parts = append(parts, fmt.Sprintf("%d:%s", tok, e.store(tok)))
	}
	if len(parts) == 0 {
		return "-"
	}
	return strings.Join(parts, ";")
}

func c07SplitAC(s string) (a, c int) {
	p := strings.SplitN(s, ".", 2)
	a, _ = strconv.Atoi(p[0])
	if len(p) > 1 {
		c, _ = strconv.Atoi(p[1])
	}
	return
}

func (e *c07Env) do(op string) string {
	f := strings.Split(op, ":")
	head := f[0]
	switch head[0] {
	case 'M':
		id, _ := strconv.Atoi(head[1:])
		var eps []bpv7.EndpointID
		if f[1] != "-" {
			for _, s := range strings.Split(f[1], "+") {
				eps = append(eps, c07Eid(s))
			}
		}
		a := &c07Agent{kind: 'M', id: id, mock: newC07Mock(eps)}
		e.agents[id] = a
		e.order = append(e.order, id)
		e.c.RegisterApplicationAgent(a.mock)
	case 'P':
		id, _ := strconv.Atoi(head[1:])
		a := &c07Agent{kind: 'P', id: id, ping: newC07Ping(c07Eid(f[1]))}
		e.agents[id] = a
		e.order = append(e.order, id)
		e.c.RegisterApplicationAgent(a.ping)
	case 'R':
		id, _ := strconv.Atoi(head[1:])
		r := mux.NewRouter()
		ra := agent.NewRestAgent(r.PathPrefix("/rest").Subrouter())
		a := &c07Agent{kind: 'R', id: id, rest: ra, srv: httptest.NewServer(r), uuids: map[int]string{}, live: map[int]bool{}}
		e.agents[id] = a
		e.order = append(e.order, id)
		e.c.RegisterApplicationAgent(ra)
	case 'r':
		ai, c := c07SplitAC(head[1:])
		if a := e.agents[ai]; a != nil && a.kind == 'R' {
			var rr agent.RestRegisterResponse
			e.post(a, "register", agent.RestRegisterRequest{EndpointId: "dtn://" + f[1]}, &rr)
			if rr.Error != "" || rr.UUID == "" {
				e.fail("register: %q", rr.Error)
			}
			a.uuids[c] = rr.UUID
			a.live[c] = true
		}
	case 'u':
		ai, c := c07SplitAC(head[1:])
		if a := e.agents[ai]; a != nil && a.kind == 'R' {
			var ur agent.RestUnregisterResponse
			e.post(a, "unregister", agent.RestUnregisterRequest{UUID: a.uuids[c]}, &ur)
			delete(a.live, c)
		}
	case 't':
		// the body of the "pending_bundles" cron job
		e.c.checkPendingBundles()
		return op + "=" + e.received() + "|" + e.sent() + "|" + e.stores()
	case 'b':
		tok, _ := strconv.Atoi(head[1:])
		b := e.bundle(tok, f[1], f[2], f[3])
		verifReceive(e.c, b, bpv7.DtnNone())
		return op + "=" + e.received() + "|" + e.sent() + "|" + e.store(tok)
	default:
		e.fail("unknown op %q", op)
	}
	return op + "=" + e.received() + "|" + e.sent() + "|" + e.endpoints()
}

// c07Run: "core <node> <peers> <op>=<obs> ..."
func c07Run(t *testing.T, dir string, node string, peers []string, ops []string) string {
	t0 := time.Now()
	c, err := verifNewCore(dir, "dtn://"+node+"/", RoutingConf{Algorithm: "epidemic"})
	for try := 1; err != nil && try <= 3; try++ {
		// a loaded machine can make the store's start-up fail; a fresh directory is as good
		fmt.Fprintf(os.Stderr, "verif: NewCore(%s): %v (retrying)\n", dir, err)
		time.Sleep(100 * time.Millisecond)
		dir = fmt.Sprintf("%s-retry%d", dir, try)
		defer os.RemoveAll(dir)
		c, err = verifNewCore(dir, "dtn://"+node+"/", RoutingConf{Algorithm: "epidemic"})
	}
	if err != nil {
		t.Errorf("core: %v", err)
		return "# harness-failure NewCore: " + err.Error()
	}
	// no timer-driven re-dispatch of pending bundles: the harness calls checkPendingBundles itself ("t")
	c.cron.Unregister("pending_bundles")
	c.cron.Unregister("clean_store")
	e := &c07Env{t: t, c: c, net: &verifNet{}, node: node, agents: map[int]*c07Agent{},
		bundles: map[int]bpv7.Bundle{}, byCbor: map[string]int{}, byJson: map[string]int{}, byId: map[string]int{}}
	defer func() {
		t1 := time.Now()
		c.Close()
		if os.Getenv("VERIF_C07_TIMING") != "" {
			fmt.Fprintf(os.Stderr, "core: total %v close %v\n", time.Since(t0), time.Since(t1))
		}
		for _, a := range e.agents {
			if a.srv != nil {
				a.srv.Close()
			}
		}
	}()
	for _, p := range peers {
		verifPeerUp(c, e.net.newCLA(p, c07Eid(p+"/"), true))
	}
	parts := []string{"core", node, strings.Join(peers, ",")}
	for _, op := range ops {
		parts = append(parts, e.do(op))
		if e.failed != "" {
			t.Errorf("harness failure: %s in %v", e.failed, ops)
			return "# harness-failure " + e.failed
		}
	}
	return strings.Join(parts, " ")
}

func c07Scenarios(r *verifRng, n int) [][]string {
	var out [][]string
	// fixed scenarios: every destination class x flags, with and without registered agents
	dests := []string{"n1/a", "n1/zz", "n2/a", "n3/q", "n1/"}
	setups := [][]string{
		{},
		{"M0:n1/a"},
		{"M0:n1/a+n2/a", "P1:n1/a", "R2", "r2.1:n1/a", "r2.2:n1/a", "r2.3:n2/a"},
		{"R0", "r0.1:n1/a", "r0.2:n1/", "M1:n1/b"},
	}
	for si, s := range setups {
		for _, fl := range []string{"d", "-"} {
			if fl == "-" && si%2 == 1 && !verifThorough() {
				continue
			}
			ops := append([]string{}, s...)
			tok := 0
			for _, d := range dests {
				tok++
				ops = append(ops, fmt.Sprintf("b%d:%s:rt/x:%s", tok, d, fl))
			}
			// report-to is a local endpoint: never reported
			tok++
			ops = append(ops, fmt.Sprintf("b%d:n1/a:n1/rep:%s", tok, fl))
			// the same bundles again (duplicates / second accepted copy)
			ops = append(ops, "b1:n1/a:rt/x:"+fl, "b2:n1/zz:rt/x:"+fl)
			// administrative records: well-formed and garbage
			ops = append(ops, fmt.Sprintf("b%d:n1/a:rt/x:a", tok+1), fmt.Sprintf("b%d:n1/a:rt/x:g", tok+2), fmt.Sprintf("b%d:n1/zz:rt/x:g", tok+3))
			out = append(out, ops)
		}
	}
	// bundles for a foreign endpoint are forwarded and kept pending; once an agent registers that
	// endpoint the next pending-bundles tick delivers them locally (once)
	out = append(out, []string{"b1:n2/a:rt/x:d", "b2:n2/a:rt/x:-", "b3:n2/b:rt/x:d", "b4:n1/zz:rt/x:d", "t",
		"M0:n2/a", "R1", "r1.1:n2/a", "r1.2:n2/a", "P2:n2/b", "t", "t", "b1:n2/a:rt/x:d", "u1.1", "b2:n2/a:rt/x:-", "t"})
	eps := []string{"n1/a", "n1/b", "n2/a", "n1/"}
	for len(out) < n {
		var ops []string
		next, cl, tok := 0, 0, 0
		var rest []int
		var live [][2]int
		for i := 0; i < 6+r.intn(10); i++ {
			switch k := r.intn(10); {
			case k == 0:
				ops = append(ops, fmt.Sprintf("M%d:%s", next, eps[r.intn(4)]))
				next++
			case k == 1:
				ops = append(ops, fmt.Sprintf("P%d:%s", next, eps[r.intn(4)]))
				next++
			case k == 2 && len(rest) < 2:
				ops = append(ops, fmt.Sprintf("R%d", next))
				rest = append(rest, next)
				next++
			case k <= 4 && len(rest) > 0:
				a := rest[r.intn(len(rest))]
				ops = append(ops, fmt.Sprintf("r%d.%d:%s", a, cl, eps[r.intn(4)]))
				live = append(live, [2]int{a, cl})
				cl++
			case k == 6 && tok > 0:
				ops = append(ops, "t")
			case k == 5 && len(live) > 0:
				i := r.intn(len(live))
				ops = append(ops, fmt.Sprintf("u%d.%d", live[i][0], live[i][1]))
				live = append(live[:i], live[i+1:]...)
			default:
				tok++
				d := append(eps, "n1/zz", "n3/q")[r.intn(6)]
				fl := []string{"-", "d", "d", "a", "g"}[r.intn(5)]
				rt := []string{"rt/x", "rt/x", "n1/rep"}[r.intn(3)]
				ops = append(ops, fmt.Sprintf("b%d:%s:%s:%s", tok, d, rt, fl))
				if r.intn(5) == 0 {
					ops = append(ops, fmt.Sprintf("b%d:%s:%s:%s", tok, d, rt, fl))
				}
			}
		}
		out = append(out, ops)
	}
	return out
}

func TestVerifC07(t *testing.T) {
	outPath := os.Getenv("VERIF_OUT")
	if outPath == "" {
		t.Skip("VERIF_OUT not set")
	}
	f, err := os.Create(outPath)
	if err != nil {
		t.Fatal(err)
	}
	defer f.Close()
	scratch := os.Getenv("VERIF_SCRATCH")
	if scratch == "" {
		scratch = t.TempDir()
	}
	n := 0
	run := func(node string, peers []string, ops []string) {
		n++
		dir := fmt.Sprintf("%s/c07core%d", scratch, n)
		fmt.Fprintln(f, c07Run(t, dir, node, peers, ops))
		_ = os.RemoveAll(dir)
	}

	if rp := os.Getenv("VERIF_REPLAY"); rp != "" {
		var rep struct {
			Input string `json:"minimal_input"`
		}
		if data, err := os.ReadFile(rp); err == nil && json.Unmarshal(data, &rep) == nil {
			fs := strings.Fields(rep.Input)
			if len(fs) >= 3 && fs[0] == "core" {
				var ops []string
				for _, it := range fs[3:] {
					if i := strings.IndexByte(it, '='); i >= 0 {
						it = it[:i]
					}
					ops = append(ops, it)
				}
				run(fs[1], strings.Split(fs[2], ","), ops)
			}
			return
		}
	}

	r := &verifRng{s: verifSeed()*0x9e37 + 7}
	total := 24
	if verifThorough() {
		total = 200
	}
	// independent Cores: run them on a few workers (the store's disk syncs dominate), keep the order
	scen := c07Scenarios(r, total)
	lines := make([]string, len(scen))
	var wg sync.WaitGroup
	sem := make(chan struct{}, 8)
	t0 := time.Now()
	for i, ops := range scen {
		wg.Add(1)
		sem <- struct{}{}
		go func(i int, ops []string) {
			defer func() { <-sem; wg.Done() }()
			peers := []string{"p1", "p2"}
			if i%3 == 1 {
				peers = []string{"p1"}
			}
			dir := fmt.Sprintf("%s/c07core%d", scratch, i)
			lines[i] = c07Run(t, dir, "n1", peers, ops)
			_ = os.RemoveAll(dir)
		}(i, ops)
	}
	wg.Wait()
	for _, l := range lines {
		fmt.Fprintln(f, l)
	}
	fmt.Fprintf(f, "# timing core %d scenarios %.1fs\n", len(scen), time.Since(t0).Seconds())
}
