package routing

// Correspondence harness for C14 (originated bundles get distinct IDs, in the store and on the wire).
// Attached with `go test -overlay`; calls the REAL code of pkg/routing and writes one observation per
// line to $VERIF_OUT. Line formats are documented in /verif/lean/Driver/C14.lean.

import (
	"bufio"
	"crypto/sha1"
	"encoding/hex"
	"fmt"
	"os"
	"path/filepath"
	"sort"
	"strings"
	"sync"
	"testing"
	"time"

	"github.com/dtn7/dtn7-go/pkg/agent"
	"github.com/dtn7/dtn7-go/pkg/bpv7"
)

const (
	c14Node  = "dtn://n1/"
	c14App   = "dtn://n1/app"
	c14Dest  = "dtn://n2/in"
	c14DestN = "dtn://n2/"
	c14Rt    = "dtn://n2/rt"
	c14Far   = "dtn://n9/x"
	c14N3    = "dtn://n3/"
	c14N4    = "dtn://n4/"
)

// Hooks set by verif_c14_internal_test.go (optional: it needs unexported IdKeeper/Core fields).
var (
	// writes the bare-IdKeeper observation lines (idk, idkc)
	verifC14Internal func(emit func(string), rng *verifRng, thorough bool, replay string)
	// switches the Core's periodic jobs off
	verifC14Quiesce func(c *Core)
)

// ---------------------------------------------------------------- rendering

func c14Tag(payload []byte) string {
	h := sha1.Sum(payload)
	return hex.EncodeToString(h[:5])
}

func c14Id(id bpv7.BundleID) string {
	s := fmt.Sprintf("%s~%d~%d", id.SourceNode.String(), id.Timestamp[0], id.Timestamp[1])
	if id.IsFragment {
		s += fmt.Sprintf("~f%d~%d", id.FragmentOffset, id.TotalDataLength)
	}
	return s
}

func c14PayloadTag(b *bpv7.Bundle) string {
	pb, err := b.PayloadBlock()
	if err != nil {
		return "nopayload"
	}
	return c14Tag(pb.Value.(*bpv7.PayloadBlock).Data())
}

func c14Join(items []string) string {
	if len(items) == 0 {
		return "-"
	}
	return strings.Join(items, ",")
}

// ---------------------------------------------------------------- mock CLA wrapper

// c14CLA wraps the shared scripted mock: every Send first looks the transmitted id up in the store
// ("is the bundle filed under the id that leaves the node, right now?").
type c14CLA struct {
	*verifMockCLA
	core *Core
	mu   *sync.Mutex
	look map[string]string // peer|id|tag -> F (filed under this id, same bundle) | T (key taken by another bundle) | N (no such key)
}

func (w *c14CLA) Send(b bpv7.Bundle) error {
	id := b.ID()
	tag := c14PayloadTag(&b)
	res := "N"
	if bi, err := w.core.store.QueryId(id.Scrub()); err == nil {
		res = "T"
		if len(bi.Parts) > 0 {
			if sb, lerr := bi.Parts[0].Load(); lerr == nil && sb.ID() == id && c14PayloadTag(&sb) == tag {
				res = "F"
			}
		}
	}
	key := w.name + "|" + c14Id(id) + "|" + tag
	w.mu.Lock()
	if old, ok := w.look[key]; !ok || old == "F" {
		w.look[key] = res
	}
	w.mu.Unlock()
	return w.verifMockCLA.Send(b)
}

// ---------------------------------------------------------------- mock application agent

type c14Agent struct {
	eids     []bpv7.EndpointID
	receiver chan agent.Message
	sender   chan agent.Message
}

func newC14Agent(eids ...string) *c14Agent {
	a := &c14Agent{receiver: make(chan agent.Message), sender: make(chan agent.Message)}
	for _, e := range eids {
		a.eids = append(a.eids, bpv7.MustNewEndpointID(e))
	}
	go func() {
		for range a.receiver {
		}
	}()
	return a
}
func (a *c14Agent) Endpoints() []bpv7.EndpointID       { return a.eids }
func (a *c14Agent) MessageReceiver() chan agent.Message { return a.receiver }
func (a *c14Agent) MessageSender() chan agent.Message   { return a.sender }

// submit hands the bundles to the agent manager exactly like a real application agent does and
// returns when the manager has processed all of them: every channel on the way (agent -> MuxAgent
// child handler -> MuxAgent.sender -> AgentManager.handler) is unbuffered and every stage handles
// one message at a time, so once two further (ignored) messages were accepted, handleMessage of the
// last bundle has returned.
func (a *c14Agent) submit(bs []bpv7.Bundle) {
	for _, b := range bs {
		a.sender <- agent.BundleMessage{Bundle: b}
	}
	for i := 0; i < 2; i++ {
		a.sender <- agent.SyscallRequestMessage{Sender: a.eids[0], Request: "verif-flush"}
	}
}

// ---------------------------------------------------------------- group scenarios

// c14Pat: one submission of a "mixed" group: which source, which creation time
// (0 = T, 1 = T+1 s, 2 = T-1 s, 3 = epoch, 4 = T+1 ms).
type c14Pat struct {
	src  string
	tsel int
}

type c14Group struct {
	pattern []c14Pat
	path   string // sb | agent | report | report2
	mode   string // seq | conc
	peer   string // none | neigh | destfail | dest
	tkind  string // now | epoch | old2m | old2d
	k      int
	seq0   uint64
	idx    int
	result string
}

func c14Bundle(src, dst string, tkind string, t time.Time, seq0 uint64, payload string) (bpv7.Bundle, error) {
	bl := bpv7.Builder().CRC(bpv7.CRC32).Source(src).Destination(dst)
	if tkind == "epoch" {
		bl = bl.CreationTimestampEpoch().BundleAgeBlock(0)
	} else {
		bl = bl.CreationTimestampTime(t)
	}
	b, err := bl.Lifetime("720h").PayloadBlock([]byte(payload)).Build()
	if err != nil {
		return b, err
	}
	b.PrimaryBlock.CreationTimestamp[1] = seq0
	return b, nil
}

// c14WaitMsStart spins until the wall clock has just entered a new millisecond.
func c14WaitMsStart() {
	t0 := time.Now().UnixNano() / 1000000
	for time.Now().UnixNano()/1000000 == t0 {
	}
}

func (g *c14Group) run(dir string) (line string) {
	head := fmt.Sprintf("grp %s %s %s %s %d", g.path, g.mode, g.peer, g.tkind, g.k)
	defer func() {
		if r := recover(); r != nil {
			line = head + " panic " + strings.ReplaceAll(fmt.Sprint(r), " ", "_")
		}
	}()
	c, err := verifNewCore(dir, c14Node, RoutingConf{Algorithm: "epidemic"})
	if err != nil {
		return head + " error newcore"
	}
	defer c.Close()
	if verifC14Quiesce != nil {
		verifC14Quiesce(c)
	}

	net := &verifNet{}
	var lmu sync.Mutex
	look := map[string]string{}
	own := bpv7.MustNewEndpointID(c14Node)
	mk := func(name, peer string, ok bool) *c14CLA {
		return &c14CLA{verifMockCLA: net.newCLA(name, bpv7.MustNewEndpointID(peer), ok), core: c, mu: &lmu, look: look}
	}
	up := func(w *c14CLA) {
		c.claManager.Register(w)
		c.routing.ReportPeerAppeared(w)
		c.checkPendingBundles()
	}

	var first *c14CLA
	switch g.peer {
	case "neigh":
		first = mk("n3", c14N3, true)
	case "destfail":
		first = mk("n2", c14DestN, false)
	case "dest":
		first = mk("n2", c14DestN, true)
	}
	if first != nil {
		up(first)
	}

	// --- the submissions
	now := bpv7.DtnTimeNow()
	t := time.Now()
	switch g.tkind {
	case "old2m":
		t = t.Add(-2 * time.Minute)
	case "old2d":
		t = t.Add(-48 * time.Hour)
	}
	src := c14Node
	if g.path == "agent" {
		src = c14App
	}
	var subs []string
	var bundles []bpv7.Bundle
	expected := g.k
	switch g.path {
	case "sb", "agent":
		if g.pattern != nil {
			// Core.HasEndpoint(source) must hold for the application endpoint as well
			c.RegisterApplicationAgent(newC14Agent(c14App))
		}
		for i := 0; i < g.k; i++ {
			payload := fmt.Sprintf("c14-g%d-b%d", g.idx, i)
			bsrc, btk, bt := src, g.tkind, t
			if g.pattern != nil {
				bsrc, btk = g.pattern[i].src, "now"
				switch g.pattern[i].tsel {
				case 1:
					bt = t.Add(time.Second)
				case 2:
					bt = t.Add(-time.Second)
				case 3:
					btk = "epoch"
				case 4:
					bt = t.Add(time.Millisecond)
				}
			}
			// the number the application wrote into the bundle: the same for all members (seq0 = 0 or 7), or - in
			// every third group - counting up (an application that numbers its bundles itself): the node assigns
			// its own numbers in any case
			preset := g.seq0
			if g.idx%3 == 2 {
				preset = g.seq0 + uint64(i)
			}
			b, err := c14Bundle(bsrc, c14Dest, btk, bt, preset, payload)
			if err != nil {
				return head + " error build"
			}
			bundles = append(bundles, b)
			subs = append(subs, c14Tag([]byte(payload))+"|"+c14Id(b.ID()))
		}
	case "report", "report2", "sreport":
		// bundles of another node that request a reception report; the node originates the reports
		for i := 0; i < g.k; i++ {
			bl := bpv7.Builder().CRC(bpv7.CRC32).Source("dtn://n5/s").Destination(c14Far).ReportTo(c14Rt).
				CreationTimestampTime(t).Lifetime("720h").
				BundleCtrlFlags(bpv7.StatusRequestReception).
				PayloadBlock([]byte(fmt.Sprintf("c14-g%d-r%d", g.idx, i)))
			if g.path == "report2" {
				bl = bl.Canonical(bpv7.NewCanonicalBlock(0, bpv7.StatusReportBlock, bpv7.NewGenericExtensionBlock([]byte{1, 2, 3}, 222)))
			}
			b, err := bl.Build()
			if err != nil {
				return head + " error build"
			}
			b.PrimaryBlock.CreationTimestamp[1] = uint64(i)
			bundles = append(bundles, b)
		}
		if g.path == "report2" {
			expected = 2 * g.k
		}
	}

	switch {
	case g.path == "sb" && g.mode == "seq":
		for i := range bundles {
			c.SendBundle(&bundles[i])
		}
	case g.path == "sb" && g.mode == "conc":
		var wg sync.WaitGroup
		start := make(chan struct{})
		for i := range bundles {
			wg.Add(1)
			go func(b *bpv7.Bundle) {
				defer wg.Done()
				<-start
				c.SendBundle(b)
			}(&bundles[i])
		}
		close(start)
		wg.Wait()
	case g.path == "agent" && g.mode == "seq":
		a := newC14Agent(c14App)
		c.RegisterApplicationAgent(a)
		a.submit(bundles)
	case g.path == "agent" && g.mode == "conc":
		var wg sync.WaitGroup
		start := make(chan struct{})
		for i := range bundles {
			a := newC14Agent(c14App)
			c.RegisterApplicationAgent(a)
			wg.Add(1)
			go func(a *c14Agent, b bpv7.Bundle) {
				defer wg.Done()
				<-start
				a.submit([]bpv7.Bundle{b})
			}(a, bundles[i])
		}
		close(start)
		wg.Wait()
	case g.path == "sreport":
		// status-report generation itself: Core.SendStatusReport for k stored foreign bundles, as
		// receive()/forward()/localDelivery()/bundleDeletion() call it
		var bps []BundleDescriptor
		for i := range bundles {
			bp := NewBundleDescriptorFromBundle(bundles[i], c.store)
			bp.Receiver = own
			bps = append(bps, bp)
		}
		if g.mode == "seq" {
			c14WaitMsStart()
			for i := range bps {
				c.SendStatusReport(bps[i], bpv7.ReceivedBundle, bpv7.NoInformation)
			}
		} else {
			var wg sync.WaitGroup
			start := make(chan struct{})
			for i := range bps {
				wg.Add(1)
				go func(bp BundleDescriptor) {
					defer wg.Done()
					<-start
					c.SendStatusReport(bp, bpv7.ReceivedBundle, bpv7.NoInformation)
				}(bps[i])
			}
			c14WaitMsStart()
			close(start)
			wg.Wait()
		}
	case g.mode == "seq": // report, report2
		c14WaitMsStart()
		for i := range bundles {
			verifReceive(c, bundles[i], own)
		}
	default:
		var wg sync.WaitGroup
		start := make(chan struct{})
		for i := range bundles {
			wg.Add(1)
			go func(b bpv7.Bundle) {
				defer wg.Done()
				<-start
				verifReceive(c, b, own)
			}(bundles[i])
		}
		c14WaitMsStart()
		close(start)
		wg.Wait()
	}

	// --- observations
	isOurs := func(id bpv7.BundleID) bool { return own.SameNode(id.SourceNode) }
	var sent []string
	cand := map[string]bpv7.BundleID{}
	collect := func(phase int) {
		for _, s := range net.drain(true) {
			b, err := bpv7.ParseBundle(strings.NewReader(string(s.Bytes)))
			if err != nil {
				sent = append(sent, fmt.Sprintf("%d|%s|unparsable|-|-", phase, s.Peer))
				continue
			}
			id := b.ID()
			if !isOurs(id) {
				continue
			}
			tag := c14PayloadTag(&b)
			lmu.Lock()
			lk := look[s.Peer+"|"+c14Id(id)+"|"+tag]
			lmu.Unlock()
			if lk == "" {
				lk = "?"
			}
			sent = append(sent, fmt.Sprintf("%d|%s|%s|%s|%s", phase, s.Peer, c14Id(id), tag, lk))
			for q := uint64(0); q < uint64(expected)+2; q++ {
				cid := id.Scrub()
				cid.Timestamp[1] = q
				cand[c14Id(cid)] = cid
			}
		}
	}
	snapshot := func() []string {
		items := map[string]string{}
		add := func(key string, fn string) {
			f, err := os.Open(fn)
			if err != nil {
				items[key] = key + "|unreadable|-"
				return
			}
			defer f.Close()
			sb, err := bpv7.ParseBundle(f)
			if err != nil {
				items[key] = key + "|unparsable|-"
				return
			}
			items[key] = key + "|" + c14Id(sb.ID()) + "|" + c14PayloadTag(&sb)
		}
		if bis, err := c.store.QueryPending(); err == nil {
			for _, bi := range bis {
				if isOurs(bi.BId) && len(bi.Parts) > 0 {
					add(c14Id(bi.BId), bi.Parts[0].Filename)
				}
			}
		}
		for _, b := range bundles {
			if g.path == "sb" || g.path == "agent" {
				for q := uint64(0); q < uint64(expected)+2; q++ {
					cid := b.ID().Scrub()
					cid.Timestamp[1] = q
					cand[c14Id(cid)] = cid
				}
				cid := b.ID().Scrub()
				cand[c14Id(cid)] = cid
			}
		}
		for _, cid := range cand {
			if bi, err := c.store.QueryId(cid); err == nil && len(bi.Parts) > 0 {
				add(c14Id(bi.BId), bi.Parts[0].Filename)
			}
		}
		var out []string
		for _, v := range items {
			out = append(out, v)
		}
		sort.Strings(out)
		return out
	}

	collect(1)
	snap := snapshot()

	// --- phase 2: the stored copies leave the node
	switch g.peer {
	case "none":
		up(mk("n2", c14DestN, true))
	case "neigh":
		up(mk("n4", c14N4, true))
	case "destfail":
		first.setDefault(true)
		c.checkPendingBundles()
	case "dest":
		c.checkPendingBundles()
	}
	collect(2)
	sort.Strings(sent)

	return fmt.Sprintf("%s now=%d n=%d subs=%s snap=%s sent=%s", head, uint64(now), expected, c14Join(subs), c14Join(snap), c14Join(sent))
}

// ---------------------------------------------------------------- submissions across a restart

// c14Restart: submissions of ONE (source, creation time) before and after an orderly restart (Close + NewCore on the
// same store directory; the IdKeeper starts empty, the store does not).
//   variant "nogap": b0, b1 are submitted with nobody connected (stored as #0, #1); restart; k2 further ones.
//   variant "gap":   b0 is stored, b1 is delivered directly to its destination (and deleted), b2 is stored; restart;
//                    k2 further ones. The number of the delivered bundle is free in the store.
// The submissions after the restart happen one after the other (conc = false) or from k2 goroutines.
// Finally a neighbour appears and everything stored leaves the node. Same observations as c14Group.run.
func c14Restart(dir, variant, tkind string, k2 int, conc bool, idx int) (line string) {
	mode := "seq"
	if conc {
		mode = "conc"
	}
	head := fmt.Sprintf("rst %s %s %s %d", variant, mode, tkind, k2)
	defer func() {
		if r := recover(); r != nil {
			line = head + " panic " + strings.ReplaceAll(fmt.Sprint(r), " ", "_")
		}
	}()
	net := &verifNet{}
	var lmu sync.Mutex
	look := map[string]string{}
	own := bpv7.MustNewEndpointID(c14Node)
	var c *Core
	open := func() error {
		var err error
		c, err = verifNewCore(dir, c14Node, RoutingConf{Algorithm: "epidemic"})
		if err == nil && verifC14Quiesce != nil {
			verifC14Quiesce(c)
		}
		return err
	}
	if err := open(); err != nil {
		return head + " error newcore"
	}
	defer func() { c.Close() }()
	mk := func(name, peer string, ok bool) *c14CLA {
		return &c14CLA{verifMockCLA: net.newCLA(name, bpv7.MustNewEndpointID(peer), ok), core: c, mu: &lmu, look: look}
	}
	now := bpv7.DtnTimeNow()
	t := time.Now()
	var subs, delivered []string
	n := 0
	submit := func(dst string) *bpv7.Bundle {
		payload := fmt.Sprintf("c14-r%d-b%d", idx, n)
		n++
		b, err := c14Bundle(c14Node, dst, tkind, t, 0, payload)
		if err != nil {
			panic("build")
		}
		subs = append(subs, c14Tag([]byte(payload))+"|"+c14Id(b.ID()))
		return &b
	}
	// --- before the restart
	c.SendBundle(submit(c14Far))
	if variant == "gap" {
		d := mk("n2", c14DestN, true)
		c.claManager.Register(d)
		c.routing.ReportPeerAppeared(d)
		c.checkPendingBundles() // b0 (for a far node) is offered to the new peer and stays stored
		b := submit(c14Dest)   // b1 is for this peer's node: delivered and deleted
		delivered = append(delivered, strings.Split(subs[len(subs)-1], "|")[0])
		c.SendBundle(b)
		c.claManager.Unregister(d)
		c.routing.ReportPeerDisappeared(d)
	}
	c.SendBundle(submit(c14Far))
	// --- restart
	c.Close()
	if err := open(); err != nil {
		return head + " error reopen"
	}
	// --- after the restart
	var bs []*bpv7.Bundle
	for i := 0; i < k2; i++ {
		bs = append(bs, submit(c14Far))
	}
	if conc {
		var wg sync.WaitGroup
		start := make(chan struct{})
		for _, b := range bs {
			wg.Add(1)
			go func(b *bpv7.Bundle) {
				defer wg.Done()
				<-start
				c.SendBundle(b)
			}(b)
		}
		close(start)
		wg.Wait()
	} else {
		for _, b := range bs {
			c.SendBundle(b)
		}
	}
	// --- observations
	isOurs := func(id bpv7.BundleID) bool { return own.SameNode(id.SourceNode) }
	var sent []string
	collect := func(phase int) {
		for _, s := range net.drain(true) {
			b, err := bpv7.ParseBundle(strings.NewReader(string(s.Bytes)))
			if err != nil {
				sent = append(sent, fmt.Sprintf("%d|%s|unparsable|-|-", phase, s.Peer))
				continue
			}
			id := b.ID()
			if !isOurs(id) {
				continue
			}
			tag := c14PayloadTag(&b)
			lmu.Lock()
			lk := look[s.Peer+"|"+c14Id(id)+"|"+tag]
			lmu.Unlock()
			if lk == "" {
				lk = "?"
			}
			sent = append(sent, fmt.Sprintf("%d|%s|%s|%s|%s", phase, s.Peer, c14Id(id), tag, lk))
		}
	}
	snapshot := func() []string {
		var out []string
		if bis, err := c.store.QueryPending(); err == nil {
			for _, bi := range bis {
				if !isOurs(bi.BId) || len(bi.Parts) == 0 {
					continue
				}
				key := c14Id(bi.BId)
				f, err := os.Open(bi.Parts[0].Filename)
				if err != nil {
					out = append(out, key+"|unreadable|-")
					continue
				}
				sb, err := bpv7.ParseBundle(f)
				f.Close()
				if err != nil {
					out = append(out, key+"|unparsable|-")
					continue
				}
				out = append(out, key+"|"+c14Id(sb.ID())+"|"+c14PayloadTag(&sb))
			}
		}
		sort.Strings(out)
		return out
	}
	collect(1)
	snap := snapshot()
	// a neighbour (not the destination) appears: everything stored leaves the node
	nb := &c14CLA{verifMockCLA: net.newCLA("n4", bpv7.MustNewEndpointID(c14N4), true), core: c, mu: &lmu, look: look}
	c.claManager.Register(nb)
	c.routing.ReportPeerAppeared(nb)
	c.checkPendingBundles()
	collect(2)
	sort.Strings(sent)
	return fmt.Sprintf("%s now=%d n=%d subs=%s delivered=%s snap=%s sent=%s", head, uint64(now), n, c14Join(subs),
		c14Join(delivered), c14Join(snap), c14Join(sent))
}

// ---------------------------------------------------------------- entry

func TestVerifC14(t *testing.T) {
	outPath := os.Getenv("VERIF_OUT")
	if outPath == "" {
		t.Skip("VERIF_OUT not set")
	}
	scratch := os.Getenv("VERIF_SCRATCH")
	if scratch == "" {
		scratch = t.TempDir()
	}
	f, err := os.Create(outPath)
	if err != nil {
		t.Fatal(err)
	}
	defer f.Close()
	w := bufio.NewWriter(f)
	defer w.Flush()

	seed := verifSeed()
	rng := &verifRng{s: seed*7919 + 14}
	replay := ""
	if rp := os.Getenv("VERIF_REPLAY"); rp != "" {
		if data, err := os.ReadFile(rp); err == nil {
			// the replay file's minimal_input is one observation line; re-run every group with the same head
			s := string(data)
			if i := strings.Index(s, "\"minimal_input\": \""); i >= 0 {
				rest := s[i+len("\"minimal_input\": \""):]
				fs := strings.Fields(rest)
				if len(fs) >= 6 && fs[0] == "grp" {
					replay = strings.Join(fs[:6], " ")
				} else if len(fs) >= 1 {
					replay = fs[0]
				}
			}
		}
	}

	// ---- part 1: bare IdKeeper against the model (exact) - only when the internal file compiled
	if verifC14Internal != nil {
		verifC14Internal(func(l string) { fmt.Fprintln(w, l) }, rng, verifThorough(), replay)
	} else {
		fmt.Fprintln(w, "# C14 internal IdKeeper scripts not compiled in: API-level groups only")
	}
	w.Flush()

	// ---- part 2: groups of submissions through a real Core
	var groups []*c14Group
	add := func(path, mode, peer, tkind string, k int, seq0 uint64) {
		groups = append(groups, &c14Group{path: path, mode: mode, peer: peer, tkind: tkind, k: k, seq0: seq0, idx: len(groups)})
	}
	peers := []string{"none", "neigh", "destfail", "dest"}
	reps := 1
	if verifThorough() {
		reps = 4
	}
	for rep := 0; rep < reps; rep++ {
		for k := 2; k <= 8; k++ {
			for _, path := range []string{"sb", "agent"} {
				for _, mode := range []string{"seq", "conc"} {
					for _, tk := range []string{"now", "epoch"} {
						// every peer situation for the extreme sizes of SendBundle groups, a seed-dependent one otherwise
						ps := peers
						if !(path == "sb" && (k == 2 || k == 8)) && !verifThorough() {
							ps = []string{peers[rng.intn(4)]}
						}
						for _, p := range ps {
							add(path, mode, p, tk, k, uint64(rng.intn(2)*7))
						}
					}
				}
			}
			// creation times in the past (application built the bundle earlier): sequential only,
			// the concurrent outcome depends on the interleaving of update and clean
			add("sb", "seq", peers[rng.intn(4)], "old2m", k, 0)
			if k%2 == 0 || verifThorough() {
				add("agent", "seq", peers[rng.intn(4)], "old2m", k, 0)
			}
			if k == 2 || k == 5 || k == 8 || verifThorough() {
				// older than the IdKeeper's retention: the counter is dropped at once; the numbers of the bundles
				// that are still stored are skipped (none, neigh, destfail), after a direct delivery the number is
				// handed out again (dest: the known finding)
				for _, p := range peers {
					add("sb", "seq", p, "old2d", k, 0)
				}
			}
			for _, mode := range []string{"seq", "conc"} {
				add("sreport", mode, peers[rng.intn(4)], "now", k, 0)
			}

			add("report", "conc", peers[rng.intn(4)], "now", k, 0)
			add("report2", "conc", peers[rng.intn(4)], "now", k, 0)
			if k%2 == 0 || verifThorough() {
				add("report", "seq", peers[rng.intn(4)], "now", k, 0)
			} else {
				add("report2", "seq", peers[rng.intn(4)], "now", k, 0)
			}
		}
	}
	// histories with NON-MONOTONE creation times per source: T, T', T (T' later or earlier), the epoch
	// mixed with clock times, two sources interleaved, and random ones
	A, B := c14Node, c14App
	pats := [][]c14Pat{
		{{A, 0}, {A, 1}, {A, 0}},
		{{A, 0}, {A, 2}, {A, 0}},
		{{A, 0}, {A, 3}, {A, 0}, {A, 3}},
		{{A, 0}, {B, 0}, {A, 1}, {B, 0}, {A, 0}, {B, 1}, {A, 1}},
		{{A, 0}, {A, 4}, {A, 0}, {A, 4}, {A, 0}},
		{{B, 3}, {B, 2}, {B, 3}, {B, 0}, {B, 2}, {B, 0}},
	}
	nrand := 2
	if verifThorough() {
		nrand = 12
	}
	for r := 0; r < nrand; r++ {
		var pt []c14Pat
		n := 3 + rng.intn(6)
		for i := 0; i < n; i++ {
			pt = append(pt, c14Pat{[]string{A, B}[rng.intn(2)], rng.intn(5)})
		}
		pats = append(pats, pt)
	}
	for rep := 0; rep < reps; rep++ {
		for _, pt := range pats {
			for _, path := range []string{"sb", "agent"} {
				for _, mode := range []string{"seq", "conc"} {
					add(path, mode, peers[rng.intn(4)], "mixed", len(pt), uint64(rng.intn(2)*7))
					groups[len(groups)-1].pattern = pt
				}
			}
		}
	}
	if replay != "" {
		var sel []*c14Group
		for _, g := range groups {
			if fmt.Sprintf("grp %s %s %s %s %d", g.path, g.mode, g.peer, g.tkind, g.k) == replay {
				sel = append(sel, g)
			}
		}
		groups = sel
	}

	workers := 8
	var wg sync.WaitGroup
	jobs := make(chan *c14Group)
	for i := 0; i < workers; i++ {
		wg.Add(1)
		go func() {
			defer wg.Done()
			for g := range jobs {
				dir := filepath.Join(scratch, fmt.Sprintf("c14-%d-%d", seed, g.idx))
				g.result = g.run(dir)
				_ = os.RemoveAll(dir)
			}
		}()
	}
	for _, g := range groups {
		jobs <- g
	}
	close(jobs)
	wg.Wait()

	// submissions across a restart
	if replay == "" {
		ri := 0
		for _, variant := range []string{"nogap", "gap"} {
			for _, tk := range []string{"epoch", "now"} {
				for _, conc := range []bool{false, true} {
					ks := []int{2, 5}
					if verifThorough() {
						ks = []int{1, 2, 3, 5, 8}
					}
					for _, k2 := range ks {
						dir := filepath.Join(scratch, fmt.Sprintf("c14-rst-%d-%d", seed, ri))
						fmt.Fprintln(w, c14Restart(dir, variant, tk, k2, conc, ri))
						_ = os.RemoveAll(dir)
						ri++
					}
				}
			}
		}
	}

	coincide, reports := 0, 0
	for _, g := range groups {
		fmt.Fprintln(w, g.result)
		if strings.Contains(g.path, "report") {
			// statistic: how many originated reports shared their (source, millisecond) with another one
			if i := strings.Index(g.result, " snap="); i >= 0 {
				cnt := map[string]int{}
				for _, it := range strings.Split(strings.Fields(g.result[i+6:])[0], ",") {
					p := strings.Split(it, "|")
					if len(p) == 3 {
						q := strings.Split(p[0], "~")
						if len(q) >= 3 {
							cnt[q[0]+"~"+q[1]]++
						}
					}
				}
				for _, n := range cnt {
					reports += n
					if n > 1 {
						coincide += n
					}
				}
			}
		}
	}
	fmt.Fprintf(w, "# C14 groups=%d status-reports-filed=%d of-which-sharing-source-and-millisecond=%d\n", len(groups), reports, coincide)
}
